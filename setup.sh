#!/bin/sh
# Offline setup: a Python 3.12 venv (same interpreter as the repository's test suite) with the
# solver wheels from the local wheelhouse; /venv's site-packages are visible through a .pth file.
set -e
HERE="$(cd "$(dirname "$0")" && pwd)"
if [ ! -x "$HERE/.venv/bin/python" ]; then
  /venv/bin/python -m venv "$HERE/.venv"
  PIP_NO_INDEX=1 "$HERE/.venv/bin/pip" install -q --no-index --find-links /opt/veriftools/wheels \
      z3-solver cvc5 jsonschema deal icontract crosshair-tool
  echo "import site; site.addsitedir('/venv/lib/python3.12/site-packages')" \
      > "$HERE/.venv/lib/python3.12/site-packages/_repo_venv.pth"
fi
"$HERE/.venv/bin/python" -c "import z3, jsonschema; print('verif venv ok, z3', z3.get_version_string())"
