"""C18 — order_by / limit: bounded row-level contracts and pipeline monitors."""
import os, sys
sys.path.insert(0, os.path.dirname(os.path.abspath(__file__)))
import _std

META = {'assumptions': ['SQL ORDER BY / LIMIT semantics of SQLite']}


def run(tier, seed):
  return _std.std_run('C18', tier, seed)


def replay(spec):
  return _std.std_replay('C18', spec)
