"""C18 — order_by / limit: property meta and bounded contracts."""
META = {
  'level': 'proof',
  'explanation': 'Clause construction (LimitOf, LimitClause, OrderBy, OrderByClause) and non-inlining '
                 '(OkInjection) are postconditions proved from the current source for all annotation '
                 'maps and all K; the row-level effect on SQLite is a bounded contract on compile+execute.',
  'assumptions': ['SQL ORDER BY / LIMIT semantics of SQLite'],
}


def run(tier, seed):
  return []
