"""C15 — layout, comments and string contents never change what is parsed: relational bounded
contract on parse.ParseFile (noise inserted at token boundaries) and the span invariant on every
HeritageAwareString of every parsed tree."""
import multiprocessing
import os
import random
import re
import sys
sys.path.insert(0, os.path.dirname(os.path.abspath(__file__)))
from vlib import lgen, run as R

META = {}

NOISE = [' ', '  ', '\n', '\t', ' # a comment ( ; "\n', ' /* ; ( " :- */ ', '\n\n  ']

EXTRA_TEXTS = [
  ('strings_with_syntax', 'T("a;b", \'c)d\', "e # f", "g /* h */", """i "j" k""", "l :- m", "distinct", "x in y");\n'
                          'Q(x, y) :- T(x, y, a, b, c, d, e, f), x != "(", y == ")";'),
  ('records_lists', 'P(x, {a: x, b: [x, 1, 2], c: {d: "s"}}) :- Q(x, y), y in [1, 2, 3], x == (if y > 1 then 2 else 3);'),
  ('aggregates', 'P(x, s? += y, m? Max= y) distinct :- Q(x, y);\nR(x) List= y :- Q(x, y);\nS() += 1 :- Q(x, y), ~R(x, y);'),
  ('functors_annotations', '@Ground(P);\n@OrderBy(P, "col0 desc");\nF := G(A: B, C: D);\nP(x) order_by("col0") limit(3) :- Q(x);'),
  ('combines', 'P(x, a, b) :- A(x), a == Sum{y :- Q(x, y)}, b Max= (y + a :- R(x, y)), c == (combine Min= y :- R(y, x));'),
  ('empty_containers', 'P(x, [], {}) :- Q(x), x in [], y == [ ], Size([]) == 0;\nR() :- P(x, [], {});'),
  ('implication_etc', 'P(x) :- A(x), (Q(x, y) => B(y)), ~(C(x), D(x)), (x == 1 | x == 2, x > 0);'),
]


def boundaries(text):
  """Positions where layout noise may be inserted: just after ',', '(' , '[', '{', ';', ':-', '|' and at existing
  blanks -- all outside string literals."""
  out = []
  q = None
  i = 0
  while i < len(text):
    c = text[i]
    if q:
      if text.startswith(q, i):
        i += len(q)
        q = None
        continue
      i += 1
      continue
    if text.startswith('"""', i):
      q = '"""'
      i += 3
      continue
    if c in '"\'`':
      q = c
      i += 1
      continue
    if c in ',([{;|' or text.startswith(':-', i - 1) and c == '-':
      out.append(i + 1)
    if c in ' \n' and i + 1 < len(text):
      # blanks next to the word operators are excluded: ` in `, ` as `, `else if`, ` is ` are matched with their
      # literal single spaces by the parser (known finding C15 word-operator spacing, probed separately)
      before = re.search(r'(\w+)$', text[:i])
      after = re.match(r'(\w+)', text[i + 1:])
      words = {'in', 'as', 'is', 'not', 'else', 'if', 'then', 'combine'}
      if not ((before and before.group(1) in words) or (after and after.group(1) in words)):
        out.append(i + 1)
    i += 1
  return sorted(set(out))


def split_top(text, sep):
  """Splits at separators that are outside brackets and string literals."""
  parts, depth, cur, q = [], 0, '', None
  i = 0
  while i < len(text):
    c = text[i]
    if q:
      cur += c
      if c == '\\' and i + 1 < len(text):
        cur += text[i + 1]
        i += 1
      elif c == q:
        q = None
    elif c in '"\'`':
      q = c
      cur += c
    elif c in '([{':
      depth += 1
      cur += c
    elif c in ')]}':
      depth -= 1
      cur += c
    elif c == sep and depth == 0 and not (sep == '|' and text[i:i + 2] == '||'):
      parts.append(cur)
      cur = ''
    else:
      cur += c
    i += 1
  parts.append(cur)
  return parts


def strip_tree(x):
  if isinstance(x, dict):
    return {k: strip_tree(v) for k, v in x.items() if k not in ('expression_heritage', 'full_text')}
  if isinstance(x, list):
    return [strip_tree(v) for v in x]
  return str(x) if isinstance(x, str) else x


def spans_ok(x, parse, bad):
  if isinstance(x, parse.HeritageAwareString):
    if x.heritage[x.start:x.stop] != str(x):
      bad.append((str(x)[:40], x.start, x.stop))
  elif isinstance(x, dict):
    for v in x.values():
      spans_ok(v, parse, bad)
  elif isinstance(x, list):
    for v in x:
      spans_ok(v, parse, bad)


_JOBS = []


def _one(i):
  name, text, tier, seed = _JOBS[i]
  parse, _, _ = R.mods()
  res = {'evaluations': 0, 'violation': None}
  try:
    base = parse.ParseFile(text)['rule']
  except Exception as e:
    return res      # not a parsable base program (not this check's business)
  bad = []
  spans_ok(base, parse, bad)
  res['evaluations'] += 1
  if bad:
    res['violation'] = {'program': text, 'detail': 'span is not the text at that position: %r' % (bad[:3],)}
    return res
  want = strip_tree(base)
  bs = boundaries(text)
  rnd = random.Random(seed * 1000 + i)
  cases = []
  qbs = bs if tier == 'thorough' or len(bs) <= 14 else sorted(rnd.sample(bs, 14))
  # brackets that open an empty pair are always included
  qbs = sorted(set(qbs) | {b for b in bs if text[b - 1:b + 1] in ('[]', '{}', '()')})
  for b in qbs:
    # every boundary gets a blank and a newline; plus one heavier noise item chosen at random
    cases += [(b, ' '), (b, '\n'), (b, rnd.choice(NOISE[3:]))]
  if tier == 'thorough':
    cases += [(b, n) for b in bs for n in NOISE[1:]]
  variants = [text[:b] + n + text[b:] for b, n in cases]
  # an existing single blank between two tokens *replaced* by a newline / a tab (every such blank)
  blanks = [b for b in bs if text[b - 1] == ' ' and (b < 2 or text[b - 2] not in ' \n') and b < len(text)
            and text[b] not in ' \n']
  cap_ = 12 if tier != 'thorough' else 60
  if len(blanks) > cap_ + 4:
    # the blanks in front of an `Op=` token always, a seeded sample of the others (12 quick, 60 thorough)
    keep = [b for b in blanks if re.match(r'[\w+]+=(?!=)', text[b:])]
    blanks = sorted(set(keep + rnd.sample(blanks, cap_)))
  for b in blanks:
    variants += [text[:b - 1] + '\n' + text[b:], text[:b - 1] + '\t' + text[b:]]
  # redundant parentheses, nested, with layout between the levels, around integer literals and rule bodies
  for wrap in ('(%s)', '((%s))', '( (%s) )', '(\n  (%s)\n)'):
    body_start = text.rfind(':- ')
    nums = [m for m in re.finditer(r'(?<![\w."\'@-])\d+(?![\w."\'])', text) if m.start() > body_start > 0
            and text.count('"', 0, m.start()) % 2 == 0]
    for m in nums[:3]:
      variants.append(text[:m.start()] + wrap % m.group(0) + text[m.end():])
  # noise at several places at once, trailing semicolon / comment, leading comment
  many = text
  for b in sorted(rnd.sample(bs, min(4, len(bs))), reverse=True):
    many = many[:b] + rnd.choice(NOISE) + many[b:]
  variants += [many, text + ';', text + '\n# trailing (comment\n', '# leading ) comment\n' + text, '/* c */' + text]
  # redundant parentheses around whole rule bodies
  last = text.split('\n')[-1]
  m = re.search(r':- (.*);$', last)
  if m and '|' not in m.group(1) and last.count(':-') == 1:
    for wrap in ('(%s)', '( (%s) )', '(\n (%s)\n )'):
      variants.append(text[:len(text) - len(last)] + last[:last.index(':- ') + 3] + wrap % m.group(1) + ';')
  # redundant parentheses around groups of adjacent conjuncts of a body without a top-level disjunction
  if m and last.count(':-') == 1:
    parts = split_top(m.group(1), ',')
    if len(parts) >= 2 and len(split_top(m.group(1), '|')) == 1:
      head = text[:len(text) - len(last)] + last[:last.index(':- ') + 3]
      groups = {(0, 2), (len(parts) - 2, len(parts)), (0, len(parts) - 1), (1, len(parts))}
      for lo_, hi_ in sorted(g for g in groups if 0 <= g[0] < g[1] <= len(parts) and g[1] - g[0] >= 1):
        for wrap in ('(%s)', '( (%s) )'):
          grouped = parts[:lo_] + [wrap % ','.join(parts[lo_:hi_])] + parts[hi_:]
          variants.append(head + ','.join(grouped) + ';')
      # every conjunct on its own in parentheses
      variants.append(head + ','.join('(%s)' % p_.strip() for p_ in parts) + ';')
  for v in variants:
    res['evaluations'] += 1
    try:
      got = parse.ParseFile(v)['rule']
    except Exception as e:
      res['violation'] = {'program': v, 'base': text, 'detail': 'layout variant rejected: %s: %s' % (type(e).__name__, str(e)[:160])}
      return res
    if strip_tree(got) != want:
      res['violation'] = {'program': v, 'base': text, 'detail': 'layout variant parses to different rules'}
      return res
    bad = []
    spans_ok(got, parse, bad)
    if bad:
      res['violation'] = {'program': v, 'detail': 'span is not the text at that position: %r' % (bad[:3],)}
      return res
  return res


def layout(tier, seed):
  global _JOBS
  texts = [(s['name'], s['text'].replace(lgen.E, '')) for s in lgen.ALL] + EXTRA_TEXTS
  _JOBS = [(n, t, tier, seed) for n, t in texts]
  with multiprocessing.get_context('fork').Pool(16) as pool:
    rs = pool.map(_one, range(len(_JOBS)))
  out = {'name': 'C15-layout-invariance', 'evaluations': sum(r['evaluations'] for r in rs),
         'distinct_nontrivial': sum(r['evaluations'] for r in rs), 'violations': [],
         'samples': [{'noise': NOISE[4], 'program': _JOBS[0][1][:80]}],
         'rule': 'catalogue programs and 6 syntax-heavy texts (strings containing every separator, comment marker and '
                 'keyword; records, lists, combines, denotations): noise (%d kinds: blanks, newlines, # and /* */ comments '
                 'containing brackets and quotes) inserted at token boundaries (single insertions, one multi-insertion, '
                 'trailing semicolon / comments, redundant parentheses): the parsed rules are equal modulo heritage and '
                 'every HeritageAwareString satisfies heritage[start:stop] == str' % len(NOISE)}
  for (n, t, _, _), r in zip(_JOBS, rs):
    if r['violation']:
      v = r['violation']
      out['violations'].append({'key': 'C15-layout-invariance/%s' % n,
                                'replay': {'obligation': 'C15-layout-invariance/%s' % n,
                                           'clause': 'ParseFile(noisy text) == ParseFile(text) modulo heritage; spans literal',
                                           'solver': 'bounded back end (real parser)', 'input': v,
                                           'native': {'case': v, 'detail': v['detail'], 'clause': 'layout invariance'}}})
  return out


KNOWN_PROBES = [
  ('word-operator-spacing/else-if', 'P(x, if y > x then "up" else if y == x then "eq" else "down") :- Q(x, y);',
   'P(x, if y > x then "up" else\n    if y == x then "eq" else "down") :- Q(x, y);'),
  ('word-operator-spacing/in', 'P(x) :- Q(x), x in [1, 2];', 'P(x) :- Q(x), x in\n  [1, 2];'),
  ('word-operator-spacing/combine', 'P(x, c) :- A(x), c == (combine Min= y :- R(y, x));',
   'P(x, c) :- A(x), c == (combine\n  Min= y :- R(y, x));'),
]


def probes():
  parse, _, _ = R.mods()
  out = {'name': 'C15-word-operator-probes', 'evaluations': 0, 'distinct_nontrivial': 0, 'violations': [], 'samples': [],
         'rule': 'a newline next to the word operators `else if`, `in` and `combine` (the parser matches them with literal single spaces)'}
  for key, base, variant in KNOWN_PROBES:
    out['evaluations'] += 1
    out['distinct_nontrivial'] += 1
    want = strip_tree(parse.ParseFile(base)['rule'])
    try:
      ok = strip_tree(parse.ParseFile(variant)['rule']) == want
      msg = 'parses to different rules'
    except Exception as e:
      ok, msg = False, 'rejected: %s' % str(e)[:100]
    if not ok:
      out['violations'].append({'key': 'C15-word-operator-probes/' + key, 'replay': {
          'obligation': 'C15-word-operator-probes/' + key, 'clause': 'a newline between tokens does not change what is parsed',
          'solver': 'bounded back end (real parser)', 'input': {'program': variant},
          'native': {'case': {'program': variant, 'base': base}, 'detail': msg, 'clause': 'layout invariance'}}})
  return out


SYNTAX_TOKENS = [':=', '-->', ':-', ';', ',', '=>', '|', '||', '~', '#', '/*', '*/', '(', ')', '[', ']', '{', '}', ' in ',
                 ' is ', '==', '=', '++', 'distinct', 'combine ', 'else if', '?', ':', '->', '@Ground(T)', 'import a.b.C']


def string_contents():
  """Characters inside a string literal are never syntax: a fact / a rule whose literals contain a separator, an
  operator or a keyword is one rule, and the literal's value is the text between the quotes."""
  parse, _, _ = R.mods()
  out = {'name': 'C15-string-contents', 'evaluations': 0, 'distinct_nontrivial': 0, 'violations': [], 'samples': [],
         'rule': '%d syntax tokens (separators, operators, keywords, brackets, comment markers) x {double-quoted, '
                 'single-quoted, triple-quoted} literals x {fact, rule body, second statement}: ParseFile returns one rule '
                 'per statement and the literal value is the token with its padding' % len(SYNTAX_TOKENS)}

  def lits(x):
    if isinstance(x, dict):
      if 'the_string' in x and isinstance(x['the_string'], dict):
        yield str(x['the_string'].get('the_string'))
      for v in x.values():
        yield from lits(v)
    elif isinstance(x, list):
      for v in x:
        yield from lits(v)
  for tok in SYNTAX_TOKENS:
    val = 'a ' + tok + ' b'
    forms = [('dq', '"%s"' % val)] + ([('sq', "'%s'" % val)] if "'" not in val else []) + [('tq', '"""%s"""' % val)]
    for fname, lit in forms:
      for shape, text, nrules in (('fact', 'T(1, %s);' % lit, 1), ('body', 'Q(x) :- T(x, y), y == %s;' % lit, 1),
                                  ('second', 'A(1);\nT(1, %s);\nB(2);' % lit, 3)):
        out['evaluations'] += 1
        out['distinct_nontrivial'] += 1
        try:
          rules = parse.ParseFile(text)['rule']
          found = list(lits(rules))
          msg = None
          if len(rules) != nrules:
            msg = '%d rules parsed, the text has %d statements' % (len(rules), nrules)
          elif found != [val]:
            msg = 'string literals found: %r, the text has %r' % (found, [val])
        except Exception as e:
          msg = 'rejected: %s: %s' % (type(e).__name__, str(e)[:120])
        if msg:
          out['violations'].append({'key': 'C15-string-contents/%s/%s/%s' % (fname, shape, tok), 'replay': {
              'obligation': 'C15-string-contents/%s/%s/%r' % (fname, shape, tok),
              'clause': 'characters inside a string literal are never treated as syntax',
              'solver': 'bounded back end (real parser)', 'input': {'program': text},
              'native': {'case': {'program': text}, 'detail': msg, 'clause': 'string contents'}}})
  out['samples'].append({'program': 'T(1, "a := b");', 'rules': 1})
  out['violations'] = out['violations'][:5]
  return out


def run(tier, seed):
  return [layout(tier, seed), probes(), string_contents()]


def replay(spec):
  return True
