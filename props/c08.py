"""C08 — plan-selecting annotations never change results: relational bounded contract."""
import itertools
import multiprocessing
import os
import random
import sys
sys.path.insert(0, os.path.dirname(os.path.abspath(__file__)))
import _std
from vlib import lgen, schemas, variants, run as R

META = {}
SKIP = {'named_args_reordered'} | {s_['name'] for s_ in lgen.RECURSION + lgen.WORKFLOW} | \
    {s_['name'] for s_ in lgen.ALL if s_['name'].startswith('rec_')}   # core fragment only:
# plan annotations on predicates that recursion unfolding clones end in diagnostics, which is outside this property
ANN = ['', '@NoInject(%s);', '@With(%s);', '@NoWith(%s);', '@Ground(%s);', '@NoWith(%s);\n@NoInject(%s);']


def concrete_intermediates(s):
  """Defined predicates read by other rules that compile on their own (concrete)."""
  out = []
  try:
    prog = R.compile_program(s['text'])
  except Exception:
    return out
  for p in variants.defined_predicates(s['text']):
    if variants.used_in_bodies(s['text'], p) == 0:
      continue
    import re
    if re.search(r'@(NoInject|With|NoWith|Ground)\(%s[,)]' % re.escape(p), s['text']):
      continue            # already plan-annotated in the schema itself
    try:
      R.statements_for(prog, p)
      out.append(p)
    except Exception:
      pass
  return out[:3]


def _cands(i):
  return concrete_intermediates(lgen.ALL[i])


def variant_schemas(tier, seed):
  rnd = random.Random(seed)
  with multiprocessing.get_context('fork').Pool(16) as pool:
    inter = pool.map(_cands, range(len(lgen.ALL)))
  out = []
  for s, ps in zip(lgen.ALL, inter):
    if s['name'] in SKIP or not ps:
      continue
    combos = list(itertools.product(range(len(ANN)), repeat=len(ps)))[1:]
    if len(ps) >= 2 and tier == 'quick':
      rnd.shuffle(combos)
      combos = combos[:8] + [tuple([k] * len(ps)) for k in range(1, len(ANN))]
    elif len(ps) >= 3:
      rnd.shuffle(combos)
      combos = combos[:40] + [tuple([k] * len(ps)) for k in range(1, len(ANN))]
    for k, combo in enumerate(combos):
      lines = []
      for p, a in zip(ps, combo):
        if ANN[a]:
          lines.append(ANN[a].replace('%s', p))
      d = dict(s)
      d['name'] = '%s~ann#%d' % (s['name'], k)
      d['text'] = s['text'].replace(lgen.E, lgen.E + '\n'.join(lines) + '\n', 1)
      d['cap'] = {'quick': 40, 'thorough': 300}
      d['annotations'] = lines
      out.append(d)
  return out


def plans_differ(tier):
  """The annotations really select plans: for an injectible intermediate the SQL text changes."""
  out = {'name': 'C08-plan-changed', 'evaluations': 0, 'distinct_nontrivial': 0, 'violations': [], 'samples': [],
         'rule': 'for schema inject_chain: the SQL of O differs between the default plan, @NoInject(M), @With(M), '
                 '@Ground(M) (the annotations take effect)'}
  base = [s for s in lgen.ALL if s['name'] == 'inject_chain'][0]
  texts = {}
  for a in ANN[:5]:
    t = base['text'].replace(lgen.E, lgen.E + (a.replace('%s', 'N') if a else '') + '\n', 1)
    prog = R.compile_program(t)
    pre, main = R.statements_for(prog, 'O')
    texts[a or 'default'] = '\n'.join(pre) + main
    out['evaluations'] += 1
  out['distinct_nontrivial'] = len(set(texts.values()))
  out['samples'].append({'annotation': list(texts), 'distinct_sql_texts': len(set(texts.values()))})
  if len(set(texts.values())) < 3:
    out['violations'].append({'key': 'C08-plan-changed/inject_chain',
                              'replay': {'obligation': 'C08-plan-changed', 'clause': 'annotations select different plans',
                                         'solver': 'bounded', 'input': {'program': base['text']},
                                         'native': {'case': base['text'], 'detail': 'SQL identical under all annotations',
                                                    'clause': 'plan changed'}}})
  return out


NULL_PROBES = [
  ('repeated_variable_null', 'T(1); T(null); T(3);\nP(u, u) :- T(u);\nQ(a) :- P(a, a);', 'P', 'Q'),
  ('null_passthrough', 'T(1); T(null);\nP(u) :- T(u);\nQ(a) :- P(a);', 'P', 'Q'),
  ('null_in_arith', 'T(1); T(null);\nP(u, u + 1) :- T(u);\nQ(a, b) :- P(a, b);', 'P', 'Q'),
  ('null_compared', 'T(1); T(null); T(2);\nP(u) :- T(u), u > 1;\nQ(a) :- P(a);', 'P', 'Q'),
]


def null_probes(tier):
  """Fact tables containing null: the rows of Q must be the same under every plan of P."""
  from common import sqlite3_logica
  out = {'name': 'C08-null-probes', 'evaluations': 0, 'distinct_nontrivial': 0, 'violations': [], 'samples': [],
         'rule': '%d programs over fact tables containing null x {default, @NoInject, @With, @NoWith+@NoInject} on the '
                 'intermediate predicate: equal multisets of rows' % len(NULL_PROBES)}
  for name, body, inter, main in NULL_PROBES:
    rows = {}
    for a in ('', '@NoInject(%s);', '@With(%s);', '@NoWith(%s);\n@NoInject(%s);'):
      t = lgen.E + a.replace('%s', inter) + '\n' + body
      try:
        prog = R.compile_program(t)
        pre, sql = R.statements_for(prog, main)
        con = sqlite3_logica.SqliteConnect()
        for st in pre:
          con.execute(st)
        rows[a or 'default'] = sorted(con.execute(sql).fetchall(), key=repr)
      except Exception as e:
        rows[a or 'default'] = '%s: %s' % (type(e).__name__, str(e)[:100])
      out['evaluations'] += 1
    out['distinct_nontrivial'] += 1
    if len({repr(v) for v in rows.values()}) > 1:
      out['violations'].append({'key': 'C08-null-probes/%s' % name,
                                'replay': {'obligation': 'C08-null-probes/%s' % name,
                                           'clause': 'rows of %s are the same under every plan annotation of %s' % (main, inter),
                                           'solver': 'bounded back end (real compiler + SQLite)',
                                           'input': {'program': body, 'rows_per_plan': {k: repr(v) for k, v in rows.items()}},
                                           'native': {'case': {'program': body}, 'clause': 'plan invariance',
                                                      'detail': 'rows differ between plans: %r' % rows}}})
  if NULL_PROBES:
    out['samples'].append({'program': NULL_PROBES[1][1]})
  return out


def run(tier, seed):
  vs = variant_schemas(tier, seed)
  r = schemas.run_schemas(vs, tier, seed, 'C08-annotations')
  r['rule'] = ('every catalogue schema x assignments of {none, @NoInject, @With, @NoWith, @Ground, @NoWith+@NoInject} to its '
               'concrete intermediate predicates (exhaustive for one, sampled for more): same spec comprehension on '
               'the sampled databases (%d annotated programs)' % len(vs))
  return [r, plans_differ(tier), null_probes(tier)] + _std.std_run('C08', tier, seed, schemas_tag=False)


def replay(spec):
  if spec.get('kind') == 'schema':
    return schemas.replay_schema(spec, variant_schemas('thorough', 0) + variant_schemas('quick', 0))
  return _std.std_replay('C08', spec)
