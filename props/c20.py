"""C20 — built-ins and aggregates on SQLite."""
META = {
  'level': 'other',
  'explanation': 'UDF classes and functions of sqlite3_logica.py are under contract (bounded native '
                 'execution over all short step() histories incl. every arrival order; deductive where '
                 'listed); built-in SQL templates are checked as bounded value contracts on compile+execute.',
  'assumptions': ["SQLite's JSON1 functions and arithmetic"],
}


def run(tier, seed):
  return []
