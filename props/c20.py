"""C20 — built-ins and aggregates on SQLite."""
import os, sys
sys.path.insert(0, os.path.dirname(os.path.abspath(__file__)))
import _std

META = {}


def run(tier, seed):
  return _std.std_run('C20', tier, seed, monitors=False)


def replay(spec):
  return _std.std_replay('C20', spec)
