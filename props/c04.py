"""C04 — functor application is predicate substitution."""
import os, sys
sys.path.insert(0, os.path.dirname(os.path.abspath(__file__)))
import _std

META = {}


def run(tier, seed):
  return _std.std_run('C04', tier, seed)


def replay(spec):
  return _std.std_replay('C04', spec)
