"""C07 — results do not depend on textual order or naming: relational bounded contract."""
import os, sys, random
sys.path.insert(0, os.path.dirname(os.path.abspath(__file__)))
import _std
from vlib import lgen, schemas, variants

META = {}
SKIP = {'named_args_reordered', 'rec_iter_forced_depth2',       # known findings of C01 / C03; not re-reported here
        'rec_functor_over_deep_mutual', 'rec_functor_over_deep_mutual_original'}   # carriers of the C03 / C04 finding: a
# renaming or rotation of the predicates only moves the defect between the original and its functor copy


def variant_schemas(tier, seed):
  rnd = random.Random(seed)
  out = []
  lim = 2 if tier == 'quick' else 6
  for s in lgen.ALL:
    if s['name'] in SKIP or s.get('ordered'):
      continue
    if tier == 'quick' and (s.get('workflow') or s['name'].startswith('bi_')):
      continue          # deep-recursion / workflow / built-in value schemas: thorough tier only
    body = s['text']
    vs = []
    for t in variants.permute_statements(body, rnd, lim):
      vs.append(('perm-rules', t, s['spec']))
    for t in variants.permute_conjuncts(body, rnd, lim):
      vs.append(('perm-conjuncts', t, s['spec']))
    for t, m in variants.renamings(body, rnd, lim):
      vs.append(('rename-vars %s' % m, t, s['spec']))
    preds = variants.defined_predicates(body)
    if preds:
      mp = {p: p + 'z' for p in preds}
      t, sp = variants.rename_predicates(body, s['spec'], mp)
      vs.append(('rename-preds', t, sp))
      mp2 = dict(zip(preds, preds[1:] + preds[:1]))
      if len(preds) > 1 and not set(preds) & set(s.get('tables', {})):
        t, sp = variants.rename_predicates(body, s['spec'], mp2)
        vs.append(('rotate-preds', t, sp))
    for k, (kind, t, sp) in enumerate(vs):
      d = dict(s)
      d['name'] = '%s~%s#%d' % (s['name'], kind.split(' ')[0], k)
      d['text'] = t
      d['spec'] = sp
      d['cols'] = {}
      d['cap'] = {'quick': 60, 'thorough': 400}
      d['variant'] = kind
      out.append(d)
  return out


def run(tier, seed):
  vs = variant_schemas(tier, seed)
  r = schemas.run_schemas(vs, tier, seed, 'C07-variants')
  r['rule'] = ('every catalogue schema transformed by: permutations of its statements, permutations of the top-level '
               'conjuncts / disjuncts of each rule, three consistent renamings of variables (rotation of the '
               'program\'s own names, names resembling generated ones, prefixed names), renaming and rotation of '
               'predicate names; the transformed program must satisfy the original spec comprehension on the '
               'sampled databases (%d variants)' % len(vs))
  return [r] + _std.std_run('C07', tier, seed, schemas_tag=False)


def replay(spec):
  if spec.get('kind') == 'schema':
    return schemas.replay_schema(spec, variant_schemas('thorough', 0) + variant_schemas('quick', 0))
  return _std.std_replay('C07', spec)
