"""Shared plumbing for property modules: schema contracts of a tag + run-time monitors."""
from vlib import lgen, schemas, monrun


def std_run(prop, tier, seed, schemas_tag=True, monitors=True):
  out = []
  if schemas_tag:
    sch = lgen.by_tag(prop)
    if sch:
      out.append(schemas.run_schemas(sch, tier, seed, prop + '-schemas'))
  if monitors:
    out.append(monrun.run_monitors(prop, tier, seed))
  return out


def std_replay(prop, spec):
  if spec.get('kind') == 'monitor':
    r = monrun.run_monitors(prop, 'quick', 0)
    print('             ', [v['replay']['clause'] for v in r['violations']] or 'holds')
    return not r['violations']
  if spec.get('kind') == 'schema':
    return schemas.replay_schema(spec, lgen.by_tag(prop))
  return True
