"""C13 — compilation is a deterministic, history-free function of the program."""
import json
import os
import subprocess
import sys
from concurrent.futures import ThreadPoolExecutor

HERE = os.path.dirname(os.path.dirname(os.path.abspath(__file__)))
sys.path.insert(0, HERE)
from vlib import frame

META = {}
PY = os.path.join(HERE, '.venv', 'bin', 'python')


def load_table():
  import importlib.util
  spec = importlib.util.spec_from_file_location('c13_frames', os.path.join(HERE, 'contracts', 'c13_frames.py'))
  m = importlib.util.module_from_spec(spec)
  spec.loader.exec_module(m)
  return m.J


def frames():
  J = load_table()
  inv = frame.inventory()
  out = {'name': 'C13-frames', 'evaluations': len(inv), 'distinct_nontrivial': len(inv), 'violations': [],
         'samples': [{'site': list(s), 'justification': J.get(s)} for s in inv[:3]],
         'rule': 'static inventory (vlib/frame.py) of writes to module/class state, class tables bound to instances, '
                 'order-sensitive uses of set-typed values and environment reads in %d compiler files; every site must '
                 'carry a recorded justification (contracts/c13_frames.py)' % len(frame.FILES),
         'sites': len(inv), 'justified': sum(1 for s in inv if s in J)}
  for s in inv:
    if s not in J:
      out['violations'].append({
          'key': 'C13-frames/%s/%s' % (s[2], s[1]),
          'replay': {'obligation': 'C13-frames/%s in %s:%s' % (s[2], s[0], s[1]),
                     'clause': {'F1': 'no undeclared write to module/class state',
                                'F2': 'class-level tables are copied before an instance may update them',
                                'F3': 'no order-sensitive use of a set-typed value',
                                'F4': 'no environment read on a path to emitted text',
                                'F5': 'no memoisation or mutable default shared between compilations'}[s[2]],
                     'solver': 'static frame analysis: unjustified site `%s`' % s[3], 'site': list(s)}})
  return out


def worker(args):
  seed, order = args
  env = dict(os.environ, PYTHONHASHSEED=str(seed))
  r = subprocess.run([PY, os.path.join(HERE, 'vlib', 'c13_worker.py'), order], capture_output=True, text=True, env=env,
                     timeout=900)
  if r.returncode != 0:
    return (seed, order, None, r.stderr[-500:])
  return (seed, order, json.loads(r.stdout.strip().split('\n')[-1]), None)


def relational(tier):
  seeds = [0, 1, 2] if tier == 'quick' else list(range(16))
  jobs = [(s, 'forward:%d/2' % k) for s in seeds for k in range(2)] + [(0, 'reverse'), (1, 'shuffle1'), (2, 'shuffle2')] + \
      [(0, 'twice:%d/3' % k) for k in range(3)] + [(0, 'reuse:%d/4' % k) for k in range(4)]
  if tier != 'quick':
    jobs += [(s, 'shuffle%d' % (s + 3)) for s in range(8)]
  with ThreadPoolExecutor(16) as ex:
    rs = list(ex.map(worker, jobs))
  out = {'name': 'C13-hashseeds-and-histories', 'evaluations': 0, 'distinct_nontrivial': 0, 'violations': [], 'samples': [],
         'rule': 'every catalogue program plus diamond recursion, typed dialects, functor chains and an incantation '
                 'program compiled in fresh subprocesses with PYTHONHASHSEED in %s, in forward / reverse / shuffled order, '
                 'twice in one process, and twice from one parsed rules object (which must come back unmodified); digests of (formatted SQL, preamble, exports, export map, main SQL) must agree, '
                 'the stop-file time stamp masked' % seeds}
  base = {}
  for seed, order, d, err in rs:
    if d is not None and seed == seeds[0] and order.startswith('forward'):
      base.update(d)
  out['distinct_nontrivial'] = len(base)
  out['samples'].append({'program': 'join', 'digest': base.get('join')})
  for seed, order, d, err in rs:
    if d is None:
      out['violations'].append({'key': 'C13-hashseeds-and-histories/worker', 'replay': {
          'obligation': 'worker', 'clause': 'worker ran', 'solver': 'bounded', 'native': {'case': [seed, order], 'detail': err, 'clause': 'worker'}}})
      continue
    out['evaluations'] += len(d)
    for name, h in d.items():
      ref = base.get(name.split('#')[0])
      if name.endswith('#frame'):
        # informational only: the property speaks of the emitted SQL, not of the caller's object
        out.setdefault('notes', []).append('%s: %s (output of the second compilation is compared separately)' % (name, h))
        continue
      if ref is not None and h != ref:
        out['violations'].append({
            'key': 'C13-hashseeds-and-histories/%s' % name.split('#')[0],
            'replay': {'obligation': 'C13-hashseeds-and-histories/%s' % name,
                       'clause': 'byte-identical output across hash seeds and compilation histories',
                       'solver': 'bounded back end (fresh subprocesses)',
                       'input': {'program': name, 'PYTHONHASHSEED': seed, 'history': order},
                       'native': {'case': {'program': name, 'PYTHONHASHSEED': seed, 'history': order},
                                  'detail': 'digest %s differs from %s (seed 0, forward)' % (h, ref),
                                  'clause': 'determinism'}}})
  seen, uniq = set(), []
  for v in out['violations']:
    if v['key'] not in seen:
      seen.add(v['key'])
      uniq.append(v)
  out['violations'] = uniq
  return out


def run(tier, seed):
  return [frames(), relational(tier)]


def replay(spec):
  return True
