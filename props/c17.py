"""C17 — grounded predicates are materialised faithfully; re-running is idempotent.
Bounded contract on sequences of runs against one persistent SQLite file."""
import collections
import os
import shutil
import sqlite3
import sys
import tempfile
sys.path.insert(0, os.path.dirname(os.path.abspath(__file__)))
import _std
from vlib import run as R

META = {}
E = '@Engine("sqlite");\n'
FACTS = 'T(1, 2);\nT(1, 2);\nT(2, 3);\nT(0, 5);\n'
T = [(1, 2), (1, 2), (2, 3), (0, 5)]

# name, program (FILE is replaced), attached alias, {table in file: expected rows}, {predicate: expected rows}
CASES = [
  dict(name='one_ground', attach='logica_home',
       text='@AttachDatabase("logica_home", "FILE");\n@Ground(Mid);\n' + FACTS +
            'Mid(x, y) :- T(x, y), x > 0;\nTop(x) :- Mid(x, y);\nCnt() += 1 :- Mid(x, y);\n',
       tables={'Mid': [(1, 2), (1, 2), (2, 3)]},
       preds={'Top': [(1,), (1,), (2,)], 'Cnt': [(3,)]}, asks_itself='Mid'),
  dict(name='chain_of_two', attach='logica_home',
       text='@AttachDatabase("logica_home", "FILE");\n@Ground(G1);\n@Ground(G2);\n' + FACTS +
            'G1(x, y) :- T(x, y);\nG2(x) distinct :- G1(x, y);\nTop(x, c) :- G2(x), c == Sum{1 :- G1(x, z)};\n',
       tables={'G1': T, 'G2': [(1,), (2,), (0,)]},
       preds={'Top': [(1, 2), (2, 1), (0, 1)], 'G2': [(1,), (2,), (0,)]}, asks_itself='G1'),
  dict(name='flag_in_table_name', attach='logica_home',
       text='@AttachDatabase("logica_home", "FILE");\n@DefineFlag("batch", "b1");\n'
            '@Ground(Item, "logica_home.item_${batch}");\n' + FACTS + 'Item(x) :- T(x, y), y > 2;\nTop(x + 1) :- Item(x);\n',
       tables={'item_b1': [(2,), (0,)]}, preds={'Top': [(3,), (1,)]}, asks_itself='Item'),
  dict(name='user_attaches_logica_test', attach='logica_test',
       text='@AttachDatabase("logica_test", "FILE");\n@Ground(Mid);\n' + FACTS +
            'Mid(x) :- T(x, y), x < 2;\nTop(x) :- Mid(x);\n',
       tables={'Mid': [(1,), (1,), (0,)]}, preds={'Top': [(1,), (1,), (0,)]}, asks_itself='Mid'),
  dict(name='shared_by_two_grounded', attach='logica_home',
       text='@AttachDatabase("logica_home", "FILE");\n@Ground(Nums);\n@Ground(Alt);\n@Ground(Big);\n' + FACTS +
            'Nums(x) :- T(x, y);\nAlt(x + 10) :- Nums(x);\nBig(x * 2) :- Nums(x);\nQ(x) :- Alt(x) | Big(x);\n',
       tables={'Nums': [(1,), (1,), (2,), (0,)], 'Alt': [(11,), (11,), (12,), (10,)], 'Big': [(2,), (2,), (4,), (0,)]},
       preds={'Q': [(11,), (11,), (12,), (10,), (2,), (2,), (4,), (0,)]}, asks_itself='Nums'),
  # two predicates grounded to one table: D reads C's table (@Ground(D, C)) and is reached before C
  dict(name='alias_reads_owner_table', attach='logica_home',
       text='@AttachDatabase("logica_home", "FILE");\n@Ground(C);\n@Ground(D, C);\n' + FACTS +
            'C(x) :- T(x, y), x > 0;\nReport() += 1 :- D(x), C(x);\nCnt() += 1 :- C(x);\n',
       tables={'C': [(1,), (1,), (2,)]}, preds={'Report': [(5,)], 'Cnt': [(3,)]}, asks_itself='C'),
  # two grounded predicates of one run share a WITH-compiled helper that is built on another WITH-compiled helper
  dict(name='nested_with_helpers_two_grounded', attach='logica_home',
       text='@AttachDatabase("logica_home", "FILE");\n@Ground(P);\n@Ground(R);\n' + FACTS +
            'Big(x) distinct :- T(x, y), x > 0;\nBigger(x) distinct :- Big(x), x > 0;\nP(x) :- Bigger(x), x < 4;\n'
            'R(x, y) :- P(x), Bigger(y), y >= x;\nTotal() += 1 :- R(x, y);\n',
       tables={'P': [(1,), (2,)], 'R': [(1, 1), (1, 2), (2, 2)]}, preds={'Total': [(3,)]}, asks_itself='P'),
  # a grounded intermediate that is ordered and limited: the table holds the first K rows in that order
  dict(name='grounded_ordered_limited', attach='logica_home',
       text='@AttachDatabase("logica_home", "FILE");\n@Ground(Top);\n@OrderBy(Top, "col0 desc");\n@Limit(Top, 2);\n' + FACTS +
            'Top(y) :- T(x, y);\nUse(y + 1) :- Top(y);\n',
       tables={'Top': [(5,), (3,)]}, preds={'Use': [(6,), (4,)]}, asks_itself='Top'),
  # the path of the attached database comes from a flag
  dict(name='attach_path_from_flag', attach='logica_home',
       text='@DefineFlag("wall", "FILE");\n@AttachDatabase("logica_home", "${wall}");\n@Ground(Mid);\n' + FACTS +
            'Mid(x) :- T(x, y), x > 0;\nTop(x) :- Mid(x);\n',
       tables={'Mid': [(1,), (1,), (2,)]}, preds={'Top': [(1,), (1,), (2,)]}, asks_itself='Mid'),
]


def script_run(text, pred, via_cli=False):
  """What `logica.py <file> run <pred>` does on sqlite: statements through one fresh connection; with
  via_cli the real command line tool is run in a subprocess (`logica.py <file> run_to_csv <pred>`)."""
  import csv, io
  if via_cli:
    from vlib import cli
    rc, out, err = cli.run(text, 'run_to_csv', pred)
    if rc != 0:
      raise RuntimeError('logica.py exited with %d: %s' % (rc, (err or out)[-300:]))
    return [tuple(r) for r in cli.csv_rows(out)], []
  _, _, sqlite3_logica = R.mods()
  prog = R.compile_program(text)
  pre, main = R.statements_for(prog, pred)
  # the real script runner of the CLI: common.sqlite3_logica.RunSqlScript
  out = sqlite3_logica.RunSqlScript(list(pre) + [main], 'csv')
  rows = [tuple(r) for r in list(csv.reader(io.StringIO(out)))[1:]]
  return rows, pre


def file_tables(path):
  if not os.path.exists(path):
    return {}
  con = sqlite3.connect(path)
  out = {}
  for (name,) in con.execute("select name from sqlite_master where type='table'").fetchall():
    out[name] = con.execute('select * from "%s"' % name).fetchall()
  con.close()
  return out


def same(a, b):
  norm = lambda rows: collections.Counter(tuple(str(v) for v in r) for r in rows)
  return norm(a) == norm(b)


def run_case(c, base, tier):
  path = os.path.join(base, c['name'] + '.db')
  text = E + c['text'].replace('FILE', path)
  n = 0
  preds = list(c['preds'])
  # asking for the grounded predicate itself prints it and writes nothing
  rows, pre = script_run(text, c['asks_itself'])
  n += 1
  want_self = c['tables'][[k for k in c['tables']][0]] if c['asks_itself'] not in c['preds'] else c['preds'][c['asks_itself']]
  tabs = file_tables(path)
  own = [k for k in c['tables'] if k.lower().startswith(c['asks_itself'].lower()[:4])]
  if own and own[0] in tabs:
    return n, 'asking for %s itself wrote table %s' % (c['asks_itself'], own[0])
  # sequences of runs: every predicate, then all again in reverse order
  seq = preds + list(reversed(preds)) + (preds if tier == 'thorough' else [])
  for k, p in enumerate(seq):
    rows, pre = script_run(text, p, via_cli=(k % 2 == 1))      # every second run through the command line tool
    n += 1
    if not same(rows, c['preds'][p]):
      return n, 'run #%d of %s returned %r, the program says %r' % (k + 1, p, sorted(rows), sorted(c['preds'][p]))
    tabs = file_tables(path)
    for t, want in c['tables'].items():
      if t in tabs and not same(tabs[t], want):
        return n, 'after run #%d (%s) table %s holds %r, the predicate evaluates to %r' % (
            k + 1, p, t, sorted(tabs[t]), sorted(want))
    if k == len(preds) - 1:
      missing = [t for t in c['tables'] if t not in tabs]
      if missing:
        return n, 'after running %s the attached file has no table %s (tables: %s)' % (preds, missing, sorted(tabs))
  # once more in this process, after the readers have been compiled here: asking for the grounded predicate itself,
  # against a second (fresh) file, still writes nothing
  path2 = os.path.join(base, c['name'] + '_second.db')
  rows, pre = script_run(E + c['text'].replace('FILE', path2), c['asks_itself'])
  n += 1
  tabs2 = file_tables(path2)
  if own and own[0] in tabs2:
    return n, 'asking for %s itself, after its readers were compiled in the same process, wrote table %s' % (
        c['asks_itself'], own[0])
  return n, None


def _case_job(args):
  i, tier = args
  base = tempfile.mkdtemp(prefix='verif_c17_')
  try:
    try:
      return run_case(CASES[i], base, tier)
    except Exception as e:
      return 1, 'run failed: %s: %s' % (type(e).__name__, str(e)[:300])
  finally:
    shutil.rmtree(base, ignore_errors=True)


def sequences(tier):
  out = {'name': 'C17-run-sequences', 'evaluations': 0, 'distinct_nontrivial': 0, 'violations': [], 'samples': [],
         'rule': 'programs with one or two grounded intermediates, a flag-parameterised table name, a user-attached '
                 'logica_test file and a table shared by two grounded readers; sequences of runs of their predicates '
                 '(each, then all again in reverse order; every second run through the command line tool logica.py in a subprocess) against one persistent SQLite file: rows and table contents '
                 'equal the spec after every run; asking for the grounded predicate itself writes nothing'}
  import multiprocessing
  with multiprocessing.get_context('fork').Pool(len(CASES)) as pool:
    results = pool.map(_case_job, [(i, tier) for i in range(len(CASES))])
  for c, (n, msg) in zip(CASES, results):
    out['evaluations'] += n
    out['distinct_nontrivial'] += n
    if msg:
      out['violations'].append({'key': 'C17-run-sequences/%s' % c['name'],
                                'replay': {'obligation': 'C17-run-sequences/%s' % c['name'],
                                           'clause': 'table of P == multiset P evaluates to; re-running changes nothing',
                                           'solver': 'bounded back end (real compiler + SQLite file)',
                                           'input': {'program': c['text']},
                                           'native': {'case': {'program': c['text']}, 'detail': msg, 'clause': 'run sequence'},
                                           'prop_replay': {'kind': 'sequence', 'case': c['name']}}})
  out['samples'].append({'case': CASES[0]['name'], 'program': CASES[0]['text'][:200]})
  return out


def run(tier, seed):
  return [sequences(tier)]


def replay(spec):
  o = sequences('quick')
  bad = [v for v in o['violations'] if v['key'].endswith('/' + spec.get('case', ''))]
  print('             ', [v['replay']['native']['detail'] for v in bad] or 'holds')
  return not bad
