"""C17 — grounded predicates."""
META = {
  'level': 'other',
  'explanation': 'TranslateTableAttachedToFile is proved against its contract (one export statement per grounded '
                 'predicate, after the nested ones, memoised, edge recorded for every reader); run-sequence '
                 'behaviour against a persistent SQLite file is a bounded contract.',
  'assumptions': ['SQLite DDL semantics', 'assumed contracts of PredicateSql (append-only on the statement list) and '
                  'the other callees listed in the evidence'],
}


def run(tier, seed):
  return []
