"""C14 — workflow execution: whole-run contract of concertina_lib.Concertina on all small plans."""
import contextlib
import io
import itertools
import multiprocessing
import os
import random
import shutil
import sys
import tempfile

META = {
  'level': 'other',
  'explanation': 'Step lemmas of the scheduler (UpdateStateForIterativeAction, RunOneAction) are proved from the '
                 'current source for all queues / counters; the whole-run statements (every action after its '
                 'inputs, non-iterated actions exactly once, members in declared order for exactly the declared '
                 'repetitions or until the stop signal, termination) are a contract on Concertina.Run checked on '
                 'every well-formed plan up to the size bound, and on plans compiled from programs with @Ground '
                 'and deep recursion through ExecuteLogicaProgram.',
  'assumptions': ["the engine's Run has no effect on the scheduler's fields",
                  'display code is dropped (frame: writes only display fields)',
                  'well-formedness of plans (DESIGN.md C14 WF): acyclic, distinct names, a non-diamond iteration '
                  'has an even number of members, external prerequisites of a lower-half member are prerequisites '
                  'of the upper half'],
}

REPO = os.environ.get('VERIF_REPO', '/repo')


def lib():
  if REPO not in sys.path:
    sys.path.insert(0, REPO)
  with contextlib.redirect_stdout(io.StringIO()):
    from common import concertina_lib
  return concertina_lib


class Engine:
  def __init__(self, stop_at=None, stop_file=None):
    self.log = []
    self.stop_at = stop_at
    self.stop_file = stop_file

  def Run(self, action):
    self.log.append(action['predicate'])
    if self.stop_at is not None and len(self.log) == self.stop_at:
      with open(self.stop_file, 'w') as f:
        f.write('stop')
    if len(self.log) > 400:
      raise RuntimeError('run does not terminate (400 engine calls)')


def plans(tier):
  """Well-formed plans: names a..e, DAG edges i<j, at most one/two iterations."""
  names = ['a', 'b', 'c', 'd', 'e']
  n_max = 4 if tier == 'quick' else 5
  for n in range(1, n_max + 1):
    ns = names[:n]
    pairs = [(i, j) for i in range(n) for j in range(i + 1, n)]
    for mask in range(1 << len(pairs)):
      if tier == 'quick' and n == 4 and bin(mask).count('1') > 3:
        continue
      if n == 5 and bin(mask).count('1') > 3:
        continue
      edges = [pairs[k] for k in range(len(pairs)) if mask >> k & 1]
      req = {ns[j]: [ns[i] for (i, j2) in edges if j2 == j] for j in range(n)}
      yield ns, req


def iterations_for(ns, req):
  """Candidate iteration groups over the plan (declared order = a permutation of a subset)."""
  yield {}
  for k in (2, 4):
    for members in itertools.permutations(ns, k):
      for reps in (1, 2, 3):
        yield {'it': {'predicates': list(members), 'repetitions': reps, 'stop_signal': None}}
  for k in (1, 2, 3):
    for members in itertools.permutations(ns, k):
      yield {'it': {'predicates': list(members), 'repetitions': 2, 'stop_signal': None, 'mode': 'diamond'}}
  # two iteration groups side by side
  if len(ns) >= 4:
    for m1 in itertools.permutations(ns, 2):
      rest = [x for x in ns if x not in m1]
      for m2 in itertools.permutations(rest, 2):
        if m1[0] < m2[0]:
          for reps in ((2, 2), (1, 3), (3, 2)):
            yield {'it1': {'predicates': list(m1), 'repetitions': reps[0], 'stop_signal': None},
                   'it2': {'predicates': list(m2), 'repetitions': reps[1], 'stop_signal': None}}


def well_formed(ns, req, its):
  """WF precondition (DESIGN.md C14) -- plans the compiler can produce."""
  # the quotient graph (each iteration contracted to one node) must be acyclic
  block = {m: k for k, it in its.items() for m in it['predicates']}
  node = lambda a: block.get(a, a)
  qedges = {(node(r), node(a)) for a in ns for r in req[a] if node(r) != node(a)}
  nodes = {node(a) for a in ns}
  while nodes:
    free = [n_ for n_ in nodes if not any(t == n_ and s_ in nodes for (s_, t) in qedges)]
    if not free:
      return False
    nodes -= set(free)
  for it in its.values():
    ms = it['predicates']
    mset = set(ms)
    # members must be schedulable as one block: no member depends on a non-member that depends
    # on a member (a cycle through the block)
    def reach(x, seen):
      for r in req[x]:
        if r not in seen:
          seen.add(r)
          reach(r, seen)
      return seen
    for m in ms:
      for r in reach(m, set()):
        if r not in mset and reach(r, set()) & mset:
          return False
    # declared order must be compatible with dependencies inside the block for the first round
    pos = {m: i for i, m in enumerate(ms)}
    if it.get('mode') == 'diamond':
      upper, lower = set(ms), set()
    else:
      mid = len(ms) // 2
      upper, lower = set(ms[:mid]), set(ms[mid:])
    ext = lambda half: {r for m in half for r in req[m]} - half
    # external prerequisites of the lower half are prerequisites of the upper half (or in it)
    if not (ext(lower) - upper <= ext(upper) | upper):
      return False
    # in-block dependencies must go forward in declared order (first round reads earlier members)
    for m in ms:
      for r in req[m]:
        if r in mset and pos[r] > pos[m]:
          return False
  return True


def expected_ok(ns, req, its, log, stop_at):
  """The C14 statements as a postcondition over the engine log.  Returns None or a message."""
  first = {}
  for i, a in enumerate(log):
    first.setdefault(a, i)
  member_of = {m: k for k, it in its.items() for m in it['predicates']}
  for a in ns:
    if a not in first:
      return 'action %s never ran' % a
    if a not in member_of and log.count(a) != 1:
      return 'non-iterated action %s ran %d times' % (a, log.count(a))
    for r in req[a]:
      if r in member_of and member_of.get(a) == member_of[r]:
        continue
      if first[r] > first[a]:
        return 'action %s ran before its input %s' % (a, r)
  for k, it in its.items():
    ms = it['predicates']
    proj = [a for a in log if a in ms]
    reps = max(it['repetitions'], 1)
    full = ms * reps
    if stop_at is None:
      if proj != full:
        return 'iteration ran %r, declared %r x %d' % (proj, ms, reps)
    else:
      if proj != full[:len(proj)]:
        return 'iteration ran %r, not a prefix of %r x %d' % (proj, ms, reps)
      if len(proj) < len(ms):
        return 'iteration stopped before completing one round: %r' % proj
    # contiguity: between the first and last run of a member only members run
    idx = [i for i, a in enumerate(log) if a in ms]
    if idx and any(log[i] not in ms for i in range(idx[0], idx[-1] + 1)):
      return 'iteration block is not contiguous: %r' % log
  return None


def check_understood_and_sorted(c, ns, req, its):
  """Contracts of UnderstandIterations (the maps are their comprehension definitions) and SortActions
  (a permutation; iteration members contiguous in declared order; prerequisites first)."""
  want_ai = {p: k for k, it in its.items() for p in it['predicates'] if p in ns}
  if c.action_iteration != want_ai:
    return 'UnderstandIterations: action_iteration is %r, definition gives %r' % (c.action_iteration, want_ai)
  if c.iteration_repetitions != {k: it['repetitions'] for k, it in its.items()}:
    return 'UnderstandIterations: iteration_repetitions differ from the declared ones'
  if c.iteration_actions != {k: list(it['predicates']) for k, it in its.items()}:
    return 'UnderstandIterations: iteration_actions differ from the declared order'
  for k, it in its.items():
    ms = it['predicates']
    if it.get('mode') == 'diamond':
      upper, lower = set(ms), set()
    else:
      upper, lower = set(ms[:len(ms) // 2]), set(ms[len(ms) // 2:])
    for half in (upper, lower):
      ext = {r for m in half for r in req[m]} - half
      for m in half:
        if not ext <= set(c.action_requires[m]):
          return 'UnderstandIterations: member %s does not require the external prerequisites %r of its half' % (m, sorted(ext))
  order = list(c.actions_to_run)
  if sorted(order) != sorted(ns):
    return 'SortActions: result %r is not a permutation of the actions' % order
  pos = {a: i for i, a in enumerate(order)}
  for k, it in its.items():
    ms = [m for m in it['predicates'] if m in pos]
    if [order[i] for i in range(pos[ms[0]], pos[ms[0]] + len(ms))] != ms:
      return 'SortActions: members of iteration %s are not contiguous in declared order: %r' % (k, order)
  for a in ns:
    for r in req[a]:
      if want_ai.get(a) is not None and want_ai.get(a) == want_ai.get(r):
        continue
      if pos[r] > pos[a]:
        return 'SortActions: %s is scheduled before its prerequisite %s' % (a, r)
  return None


def run_plan(cl, ns, req, its, stop_at, scratch):
  config = [{'name': a, 'requires': list(req[a]), 'action': {'predicate': a, 'launcher': 'none'}} for a in ns]
  its2 = {k: dict(v) for k, v in its.items()}
  stop_file = None
  if stop_at is not None:
    stop_file = os.path.join(scratch, 'stop_%d_%d' % (os.getpid(), random.randrange(1 << 30)))
    for v in its2.values():
      v['stop_signal'] = stop_file
  eng = Engine(stop_at, stop_file)
  try:
    with contextlib.redirect_stdout(io.StringIO()):
      c = cl.Concertina(config, eng, display_mode='silent', iterations=its2)
      msg = check_understood_and_sorted(c, ns, req, its2)
      if msg:
        return eng.log, msg
      c.Run()
  except Exception as e:
    return eng.log, '%s: %s' % (type(e).__name__, str(e)[:200])
  finally:
    if stop_file and os.path.exists(stop_file):
      os.unlink(stop_file)
  return eng.log, None


def _chunk(args):
  tier, idx, nchunks, scratch = args
  cl = lib()
  res = {'evaluations': 0, 'nontrivial': 0, 'violation': None, 'sample': None}
  k = 0
  for ns, req in plans(tier):
    for its in iterations_for(ns, req):
      k += 1
      if k % nchunks != idx:
        continue
      if not well_formed(ns, req, its):
        continue
      stops = [None]
      if len(its) == 1 and list(its.values())[0].get('mode') != 'diamond':
        total = len(ns) + len(list(its.values())[0]['predicates']) * 3
        stops += list(range(1, min(total, 9)))
      for stop_at in stops:
        log, err = run_plan(cl, ns, req, its, stop_at, scratch)
        res['evaluations'] += 1
        if its:
          res['nontrivial'] += 1
        msg = err or expected_ok(ns, req, its, log, stop_at)
        if msg:
          res['violation'] = {'plan': {'actions': ns, 'requires': req, 'iterations': its, 'stop_after_runs': stop_at},
                              'log': log, 'detail': msg}
          return res
        if res['sample'] is None and its and len(ns) >= 3:
          res['sample'] = {'plan': {'actions': ns, 'requires': req, 'iterations': its, 'stop_after_runs': stop_at},
                           'engine_log': log}
  return res


def compiled_plans(tier, seed):
  from vlib import lgen, schemas
  r = schemas.run_schemas(lgen.by_tag('C14'), tier, seed, 'C14-compiled-plans')
  r['rule'] = ('plans produced by compiling programs with @Ground and deep recursion, executed through '
               'concertina_lib.ExecuteLogicaProgram on SQLite, each predicate alone and all together: rows equal the spec')
  return r


def run(tier, seed):
  scratch = tempfile.mkdtemp(prefix='verif_c14_')
  try:
    n = 16
    with multiprocessing.get_context('fork').Pool(n) as pool:
      rs = pool.map(_chunk, [(tier, i, n, scratch) for i in range(n)])
  finally:
    shutil.rmtree(scratch, ignore_errors=True)
  out = {'name': 'C14-run-contract', 'evaluations': sum(r['evaluations'] for r in rs),
         'distinct_nontrivial': sum(r['nontrivial'] for r in rs), 'violations': [],
         'samples': [r['sample'] for r in rs if r['sample']][:2],
         'rule': 'every well-formed plan with <= 4 (quick) / 5 (thorough) actions, every DAG, one iteration group '
                 '(2 or 4 members in every declared order, repetitions 1..3, or diamond mode), stop signal raised '
                 'after each possible number of engine runs; non-trivial = plan has an iteration',
         'exhaustive': True}
  for r in rs:
    if r['violation']:
      v = r['violation']
      out['violations'].append({'key': 'C14-run-contract/Concertina.Run',
                                'replay': {'obligation': 'Concertina.Run/whole-run-post', 'clause': v['detail'],
                                           'solver': 'bounded back end (real Concertina, stub engine)',
                                           'input': v['plan'], 'native': {'case': v['plan'], 'detail': v['detail'],
                                                                          'log': v['log'], 'clause': 'whole-run post'},
                                           'prop_replay': {'kind': 'plan', 'plan': v['plan']}}})
      break
  return [out, compiled_plans(tier, seed)]


def replay(spec):
  cl = lib()
  p = spec['plan']
  scratch = tempfile.mkdtemp(prefix='verif_c14_')
  try:
    log, err = run_plan(cl, p['actions'], p['requires'], p['iterations'], p['stop_after_runs'], scratch)
  finally:
    shutil.rmtree(scratch, ignore_errors=True)
  msg = err or expected_ok(p['actions'], p['requires'], p['iterations'], log, p['stop_after_runs'])
  print('             engine log', log, '->', msg or 'holds')
  return msg is None
