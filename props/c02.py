"""C02 — bounded pipeline contracts (schema catalogue)."""
from vlib import lgen, schemas, monrun

META = {
  'level': 'other',
  'explanation': 'Mechanism contracts proved deductively on the units listed; the end-to-end statement '
                 '(all programs x all databases) is exercised as bounded schema contracts on the real '
                 'compiler + SQLite against per-schema spec comprehensions. The composition from unit '
                 'contracts to all programs goes through SQL semantics and is not proved.',
  'assumptions': ['SQLite implements SELECT-FROM-WHERE / UNION ALL / GROUP BY / aggregates as bag algebra',
                  'the schema catalogue is a fixed finite set of program shapes'],
}


def run(tier, seed):
  return [schemas.run_schemas(lgen.by_tag('C02'), tier, seed, 'C02-schemas'),
          monrun.run_monitors('C02', tier, seed)]


def replay(spec):
  if spec.get('kind') == 'monitor':
    r = monrun.run_monitors('C02', 'quick', 0)
    print('             ', [v['replay']['clause'] for v in r['violations']] or 'holds')
    return not r['violations']
  return schemas.replay_schema(spec, lgen.by_tag('C02'))
