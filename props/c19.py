"""C19 — invalid programs are rejected with a diagnostic, never compiled to wrong SQL.
Bounded contract on ParseFile + LogicaProgram + FormattedPredicateSql over a fixed catalogue of
single-point corruptions of valid programs."""
import multiprocessing
import os
import re
import sys
sys.path.insert(0, os.path.dirname(os.path.abspath(__file__)))
import _std
from vlib import lgen, run as R

META = {}
E = '@Engine("sqlite");\n'
DIAG = ('ParsingException', 'RuleCompileException', 'FunctorError', 'TypeErrorCaughtException')

# (name, corrupted program, predicate to compile, substring that must be named by the diagnostic)
SEMANTIC = [
  ('unbound_head_var', 'P(x, y) :- Q(x, z);', 'P', 'y'),
  ('unbound_head_var_expr', 'P(x + w) :- Q(x, z);', 'P', 'w'),
  ('unbound_comparison_var', 'P(x) :- Q(x, z), x > w;', 'P', 'w'),
  ('unbound_in_negated_comparison', 'P(x) :- Q(x, z), ~(w > 3);', 'P', 'w'),
  ('unbound_in_assignment_rhs', 'P(x, v) :- Q(x, z), v == w + 1;', 'P', 'w'),
  # the unbound variable sits inside each kind of expression (list / record literal, call argument,
  # if-then-else, aggregated value, predicate argument expression, concatenation)
  ('unbound_in_list_rhs', 'P(x) :- Q(x, z), x in [w];', 'P', 'w'),
  ('unbound_in_list_assigned', 'P(x) :- Q(x, z), l == [w], x in l;', 'P', 'w'),
  ('unbound_in_head_list', 'P(x, [w]) :- Q(x, z);', 'P', 'w'),
  ('unbound_in_head_list_second', 'P(x, [z, w]) :- Q(x, z);', 'P', 'w'),
  ('unbound_in_head_record', 'P(x, {a: w}) :- Q(x, z);', 'P', 'w'),
  ('unbound_in_record_field_cmp', 'P(x) :- Q(x, z), {a: w}.a > x;', 'P', 'w'),
  ('unbound_in_call_arg', 'P(x, Greatest(x, w)) :- Q(x, z);', 'P', 'w'),
  ('unbound_in_call_arg_body', 'P(x) :- Q(x, z), Greatest(z, w) > 1;', 'P', 'w'),
  ('unbound_in_if_branch', 'P(x, if x > 0 then w else 1) :- Q(x, z);', 'P', 'w'),
  ('unbound_in_if_cond', 'P(x, if w > 0 then 2 else 1) :- Q(x, z);', 'P', 'w'),
  ('unbound_in_combine_body', 'P(x, s) :- Q(x, z), s == Sum{w :- Q(x, u)};', 'P', 'w'),
  ('unbound_in_agg_value', 'P(x) += w :- Q(x, z);', 'P', 'w'),
  ('unbound_in_agg_named', 'P(x, m? Max= w) distinct :- Q(x, z);', 'P', 'w'),
  ('unbound_in_list_in_call', 'P(x, Size([w, x])) :- Q(x, z);', 'P', 'w'),
  ('unbound_in_negated_pred_arg', 'P(x) :- Q(x, z), ~Q(x, w + 1);', 'P', 'w'),
  ('unbound_in_pred_arg_expr', 'P(x) :- Q(x, z), Q(w + 1, z);', 'P', 'w'),
  ('unbound_in_if_list', 'P(x, y) :- Q(x, z), y == (if z > 0 then [w] else [x]);', 'P', 'w'),
  ('unbound_in_concat', 'P("a" ++ w) :- Q(x, z);', 'P', 'w'),
  ('unbound_through_injection', 'Big(x) :- T(x), x > y;\nP(x) :- T(x), Big(x);', 'P', 'y'),
  # the unbound variable of the injected rule has the same name as a bound variable of the caller
  ('unbound_through_injection_same_name', 'Big(x) :- T(x), x > y;\nP(y) :- T(y), Big(y);', 'P', 'y'),
  ('unbound_in_injected_chain', 'A1(x) :- T(x), x != w;\nA2(x) :- A1(x);\nP(w) :- T(w), A2(w);', 'P', 'w'),
  ('aggregation_without_distinct', 'P(x, s? += y) :- Q(x, y);', 'P', 'distinct'),
  ('aggregation_without_distinct_max', 'P(x, m? Max= y) :- Q(x, y);', 'P', 'distinct'),
  ('inconsistent_distinct', 'P(x) distinct :- Q(x, y);\nP(x) :- R(x, y);', 'P', 'P'),
  ('inconsistent_distinct_3', 'P(x) :- Q(x, y);\nP(x) :- R(x, y);\nP(y) distinct :- R(x, y);', 'P', 'P'),
  # a head combining an aggregated named field with a plain value
  ('aggregation_without_distinct_value_head', 'P(x, n? += 1) = x * 2 :- Q(x, y);', 'P', 'distinct'),
  ('aggregation_without_distinct_value_head_max', 'P(x, m? Max= y) = x :- Q(x, y);', 'P', 'distinct'),
  # these two classes are rejected for the program as a whole (parser / program constructor): asking for an
  # unrelated predicate of the invalid program is rejected as well
  ('aggregation_without_distinct_other_asked', 'P(x, s? += y) :- Q(x, y);\nOther(x) :- Q(x, y);', 'Other', 'distinct'),
  ('aggregation_value_head_other_asked', 'P(x, n? += 1) = x * 2 :- Q(x, y);\nOther(x) :- Q(x, y);', 'Other', 'distinct'),
  ('inconsistent_distinct_other_asked', 'P(x) distinct :- Q(x, y);\nP(x) :- R(x, y);\nOther(x) :- Q(x, y);', 'Other', 'P'),
  ('inconsistent_distinct_interleaved', 'P(x) :- Q(x, y);\nOther(x) :- Q(x, y);\nP(x) distinct :- R(x, y);', 'P', 'P'),
  ('inconsistent_distinct_interleaved_other_asked', 'P(x) :- Q(x, y);\nOther(x) :- Q(x, y);\nP(x) distinct :- R(x, y);',
   'Other', 'P'),
  ('recursion_without_base', 'P(x) :- P(y), Q(y, x);', 'P', 'P'),
  # the self reference sits in the head value; the empty predicate is read by a predicate that has another rule
  ('recursion_without_base_in_head_value', 'Fact(n) = n * Fact(n - 1) :- Q(n, z);\nP(x) :- Q(x, z);\nP(y) :- Q(x, z), y == Fact(x);',
   'P', 'Fact'),
  ('recursion_without_base_min_in_head', 'D(x) Min= D(y) + 1 :- Q(y, x);\nP(x) :- Q(x, z);\nP(d) :- Q(x, z), d == D(x);', 'P', 'D'),
  ('mutual_recursion_without_base', 'A(x) :- B(y), Q(y, x);\nB(x) :- A(y), Q(y, x);', 'A', None),
  ('functor_bad_argument', 'F(x) :- A(x);\nG := F(B: C);\nP(x) :- G(x);', 'P', 'B'),
  ('functor_bad_argument_2', 'H(x) :- D(x);\nF(x) :- A(x), H(x);\nG := F(A: C, Zz: C);\nP(x) :- G(x);', 'P', 'Zz'),
  ('functor_one_good_one_bad', 'F(x) :- A(x), B(x);\nG := F(A: T, Cc: R);\nP(x) :- G(x);', 'P', 'Cc'),
  ('functor_two_good_one_bad', 'F(x) :- A(x), B(x);\nG := F(A: T, B: S, Bb: R);\nP(x) :- G(x);', 'P', 'Bb'),
  ('functor_chained_substituted_away', 'F(x) :- A(x), B(x);\nG := F(A: T);\nH := G(A: R, B: S);\nP(x) :- H(x);', 'P', 'A'),
] + [
  ('annotation_of_missing_%s' % a.strip('@'), 'T(1);\nP(x) :- T(x);\n%s;' % s, 'P', 'Nope')
  for a, s in [('@Limit', '@Limit(Nope, 1)'), ('@OrderBy', '@OrderBy(Nope, "col0")'), ('@NoInject', '@NoInject(Nope)'),
               ('@With', '@With(Nope)'), ('@NoWith', '@NoWith(Nope)'), ('@CompileAsUdf', '@CompileAsUdf(Nope)')]
] + [
  ('unknown_annotation', 'T(1);\nP(x) :- T(x);\n@Fooo(P);', 'P', None),
  ('double_annotation', 'T(1);\nP(x) :- T(x);\n@Limit(P, 1);\n@Limit(P, 2);', 'P', 'P'),
  ('with_and_nowith', 'T(1);\nM(x) :- T(x);\nP(x) :- M(x);\n@With(M);\n@NoWith(M);', 'P', 'M'),
  ('limit_not_a_number', 'T(1);\nP(x) :- T(x);\n@Limit(P, "many");', 'P', 'P'),
  ('undefined_flag', 'T(1);\nP(x, FlagValue("nope")) :- T(x);', 'P', 'nope'),
  ('no_rules', 'T(1);\nP(x) :- T(x);', 'Missing', 'Missing'),
  # three corners recorded as known findings (known_findings.jsonl)
  ('recursion_without_base_underscore', 'My_p(x) :- My_p(y), Q(y, x);', 'My_p', 'My_p'),
  ('unbound_var_named_like_generated', 'P(x) :- Q(x, z), x > x_1;', 'P', 'x_1'),
  ('unbound_on_both_sides_of_equality', 'P(x) :- Q(x, z), y == w;', 'P', None),
]


def outcome(text, pred):
  parse, universe, _ = R.mods()
  try:
    rules = parse.ParseFile(text)['rule']
    prog = universe.LogicaProgram(rules)
    sql = prog.FormattedPredicateSql(pred)
    return 'sql', sql, ''
  except Exception as e:
    ctx = ' '.join(str(getattr(e, a, '')) for a in ('rule_str', 'functor_name', 'location'))
    return type(e).__name__, re.sub(r'\x1b\[[0-9;]*m', '', str(e)), ctx


def _semantic(i):
  name, body, pred, mention = SEMANTIC[i]
  kind, msg, ctx = outcome(E + body, pred)
  if kind == 'sql':
    return name, body, 'accepted: SQL was produced:\n%s' % msg[:300]
  if kind not in DIAG:
    return name, body, 'ended with %s (%s) instead of a diagnostic' % (kind, msg[:200])
  if mention and mention not in msg and mention not in ctx:
    return name, body, 'diagnostic does not name %r: %s | %s' % (mention, msg[:200], ctx[:100])
  return name, body, None


def bracket_corruptions(tier):
  """Deleting / inserting one bracket or quote in valid catalogue programs."""
  out = []
  base = [s for s in lgen.CORE if s['name'] in ('join', 'in_column', 'record', 'if_then_else', 'functional', 'strings',
                                                 'disj', 'named_args')]
  for s in base:
    t = s['text']
    pred = list(s['spec'])[0]
    pos = [i for i, c in enumerate(t) if c in '()[]{}"' and i > len(E)]
    step = 1 if tier == 'thorough' else max(1, len(pos) // 10)
    for i in pos[::step]:
      out.append(('%s:delete@%d(%s)' % (s['name'], i, t[i]), t[:i] + t[i + 1:], pred))
    for ins in (')', '(', ']', '"', '}'):
      j = t.index(':-') + 3
      out.append(('%s:insert%s@%d' % (s['name'], ins, j), t[:j] + ins + t[j:], pred))
    # the same deletions in a program whose last statement has no semicolon
    t2 = t.rstrip()
    if t2.endswith(';'):
      t2 = t2[:-1]
      for i in [i for i in pos if i < len(t2)][::max(1, step * 2)]:
        out.append(('%s:delete@%d(%s):no-final-semicolon' % (s['name'], i, t[i]), t2[:i] + t2[i + 1:], pred))
  # a call whose closing parenthesis is missing while the text still ends in `)`
  for name_, text_, pred_ in (('unclosed_call_ends_in_paren', E + 'R(x, Abs(x)) :- Q(x, y);\nP(x) :- R(x, Abs(x', 'P'),
                              ('unclosed_call_swallows_statements', E + 'P(x) :- Q(x, Abs(y);\nR(z) :- Q(z, w), S(w)', 'R'),
                              ('unclosed_call_in_fact', E + 'P(1, Abs(2)', 'P'),
                              # the variables of the unclosed call are bound by another conjunct
                              ('unclosed_last_call_vars_bound_elsewhere',
                               E + 'T(1); T(2); T(-2);\nR(x, y) :- T(x), T(y), y > x;\nP(x) :- T(x), R(x, Abs(x)', 'P'),
                              ('unclosed_middle_call_vars_bound_elsewhere',
                               E + 'T(1);\nR(x, y) :- T(x), T(y), y >= x;\nP(x) :- T(x), R(x, Abs(x);\nT(2);\nT(3)', 'P')):
    out.append((name_, text_, pred_))
  return out


_BR = []


def _bracket(i):
  name, text, pred = _BR[i]
  kind, msg, ctx = outcome(text, pred)
  if kind == 'sql':
    return name, text, 'accepted: SQL was produced for unbalanced input'
  if kind not in DIAG:
    return name, text, 'ended with %s (%s) instead of a diagnostic' % (kind, msg[:200])
  return name, text, None


def corruptions(tier):
  global _BR
  _BR = bracket_corruptions(tier)
  with multiprocessing.get_context('fork').Pool(16) as pool:
    r1 = pool.map(_semantic, range(len(SEMANTIC)))
    r2 = pool.map(_bracket, range(len(_BR)))
  out = {'name': 'C19-corruptions', 'evaluations': len(r1) + len(r2), 'distinct_nontrivial': len(r1) + len(r2),
         'violations': [], 'samples': [{'corruption': SEMANTIC[0][0], 'program': SEMANTIC[0][1]}],
         'rule': '%d semantic single-point corruptions (unbound head / comparison / negation variables incl. through '
                 'injection with a clashing name, aggregation without distinct, inconsistent distinct, recursion '
                 'without base case, functor applied to a non-argument, annotations of missing predicates, unknown / '
                 'double annotations, undefined flag) and %d bracket/quote deletions and insertions in catalogue '
                 'programs: the outcome is one of the four diagnostic exception types naming the offender, never SQL '
                 'and never another exception' % (len(r1), len(r2))}
  for name, text, msg in r1 + r2:
    if msg:
      out['violations'].append({'key': 'C19-corruptions/%s' % name.split('@')[0],
                                'replay': {'obligation': 'C19-corruptions/%s' % name,
                                           'clause': 'invalid program => diagnostic exception naming the offender, no SQL',
                                           'solver': 'bounded back end (real parser + compiler)',
                                           'input': {'program': text},
                                           'native': {'case': {'program': text}, 'detail': msg, 'clause': 'rejection'},
                                           'prop_replay': {'kind': 'corruption', 'name': name}}})
  return out


CLI_CASES = [
  ('valid', 'T(1);\nP(x) :- T(x);', 'P', None),
  ('unbalanced', 'T(1);\nP(x) :- T(x;', 'P', 'parsing'),
  ('unbound_variable', 'T(1);\nP(x, y) :- T(x);', 'P', 'y'),
  ('aggregation_without_distinct', 'T(1);\nP(x, s? += 1) :- T(x);', 'P', 'distinct'),
  ('functor_bad_argument', 'A(1);\nF(x) :- A(x);\nG := F(B: A);\nP(x) :- G(x);', 'P', 'B'),
  ('recursion_without_base', 'Q(1, 2);\nP(x) :- P(y), Q(y, x);', 'P', 'P'),
  ('annotation_of_missing', 'T(1);\nP(x) :- T(x);\n@Limit(Nope, 1);', 'P', 'Nope'),
  ('type_error', 'T(1);\nP(x + "a") :- T(x);', 'P', None),
  ('undefined_flag_on_command_line', 'T(1);\nP(x) :- T(x);', 'P', 'nope'),
]


def _cli_job(i):
  from vlib import cli
  name, body, pred, mention = CLI_CASES[i]
  engine = '@Engine("sqlite", type_checking: true);\n' if name == 'type_error' else E
  flags = ['--nope=1'] if name == 'undefined_flag_on_command_line' else []
  res = []
  for cmd in ('print', 'run_to_csv'):
    rc, out, err = cli.run(engine + body, cmd, pred, flags)
    text = re.sub(r'\x1b\[[0-9;]*m', '', out + err)
    if name == 'valid':
      if rc != 0:
        res.append('%s: a valid program ended with exit code %d: %s' % (cmd, rc, text[-200:]))
      continue
    if rc == 0:
      res.append('%s: exit code 0 for an invalid program; output: %s' % (cmd, out[:200]))
    elif 'SELECT' in out.upper():
      res.append('%s: SQL was printed for an invalid program' % cmd)
    elif 'Traceback' in text:
      res.append('%s: ended with a traceback instead of a diagnostic: %s' % (cmd, text[-200:]))
    elif mention and mention.lower() not in text.lower():
      res.append('%s: diagnostic does not name %r: %s' % (cmd, mention, text[-200:]))
  return name, res


def cli_diagnostics(tier):
  """The property's last clause on the real tool: `logica.py` reports through its diagnostics, exit code != 0, no SQL."""
  with multiprocessing.get_context('fork').Pool(len(CLI_CASES)) as pool:
    rs = pool.map(_cli_job, range(len(CLI_CASES)))
  out = {'name': 'C19-cli-diagnostics', 'evaluations': 2 * len(rs), 'distinct_nontrivial': 2 * (len(rs) - 1), 'violations': [],
         'samples': [{'case': CLI_CASES[2][0], 'program': CLI_CASES[2][1]}],
         'rule': '%d programs (one valid, one per class of invalidity incl. a type error and an undefined command-line '
                 'flag) through `logica.py <file> print|run_to_csv <pred>` in a subprocess: invalid => exit code != 0, '
                 'no SELECT on stdout, no traceback, the offender named; valid => exit code 0' % len(rs)}
  for name, res in rs:
    for msg in res[:1]:
      out['violations'].append({'key': 'C19-cli-diagnostics/%s' % name,
                                'replay': {'obligation': 'C19-cli-diagnostics/%s' % name,
                                           'clause': 'invalid program => diagnostic, non-zero exit code, no SQL',
                                           'solver': 'bounded back end (logica.py in a subprocess)',
                                           'input': {'program': dict((c[0], c[1]) for c in CLI_CASES)[name]},
                                           'native': {'case': {'case': name}, 'detail': msg, 'clause': 'cli diagnostics'},
                                           'prop_replay': {'kind': 'corruption', 'name': name}}})
  return out


def run(tier, seed):
  return [corruptions(tier), cli_diagnostics(tier)] + _std.std_run('C19', tier, seed, schemas_tag=False)


def replay(spec):
  if spec.get('kind') == 'corruption':
    o = corruptions('thorough')
    o2 = cli_diagnostics('thorough')
    bad = [v for v in o['violations'] + o2['violations'] if v['replay']['obligation'].endswith(spec['name'])]
    print('             ', [v['replay']['native']['detail'][:200] for v in bad] or 'holds')
    return not bad
  return _std.std_replay('C19', spec)
