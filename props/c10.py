"""C10 — strings and flags: end-to-end bounded contracts and the resource-capped flag probe."""
import os
import subprocess
import sys

META = {}
REPO = os.environ.get('VERIF_REPO', '/repo')

PROBE = r'''
import resource, sys
resource.setrlimit(resource.RLIMIT_AS, (768 << 20, 768 << 20))
sys.path.insert(0, %r)
from compiler import universe, rule_translate
try:
  from parser_py import parse
  p = universe.LogicaProgram(parse.ParseFile('@Engine("sqlite");\nT(1);')['rule'])
except Exception:
  p = universe.LogicaProgram.__new__(universe.LogicaProgram)
p.flag_values = {'f': '${f}${f}'}
try:
  r = p.UseFlagsAsParameters('SELECT ${f}')
  print('returned', len(r))
except rule_translate.RuleCompileException:
  print('diagnostic')
except MemoryError:
  print('MemoryError')
'''


def flag_probe():
  out = {'name': 'C10-flag-termination-probe', 'evaluations': 1, 'distinct_nontrivial': 1, 'violations': [],
         'samples': [], 'rule': 'UseFlagsAsParameters on the self-doubling flag f=${f}${f} under a 768 MB address-space cap'}
  r = subprocess.run(['/venv/bin/python', '-c', PROBE % REPO], capture_output=True, text=True, timeout=300)
  res = r.stdout.strip()
  out['samples'].append({'flags': {'f': '${f}${f}'}, 'sql': 'SELECT ${f}', 'outcome': res})
  if res != 'diagnostic':
    out['violations'].append({
        'key': 'C10-flag-termination-probe/self-doubling-flag',
        'replay': {'obligation': 'LogicaProgram.UseFlagsAsParameters/terminates-with-diagnostic',
                   'clause': 'expansion terminates: returns, or raises the recursive-flags diagnostic',
                   'solver': 'bounded back end (real function, memory-capped subprocess)',
                   'input': {'flags': {'f': '${f}${f}'}, 'sql': 'SELECT ${f}'},
                   'native': {'case': {'flags': {'f': '${f}${f}'}, 'sql': 'SELECT ${f}'},
                              'detail': 'outcome: %s (text doubles on each of the 100 passes)' % res,
                              'clause': 'termination'},
                   'prop_replay': {'kind': 'flag_probe'}}})
  return out


def run(tier, seed):
  return [flag_probe()]


def replay(spec):
  o = flag_probe()
  print('             ', o['samples'])
  return not o['violations']


# ---------------------------------------------------------------- end-to-end on SQLite
import itertools
import json
import multiprocessing

ALPHA = ['a', 'A', '0', ' ', '\n', '\t', '"', "'", '`', '\\', '#', '/', '*', '(', ')', '[', ']', '{', '}',
         ',', ';', ':', '|', '$', '%', 'é', '😀', '_', '?', '-', '=']
CORE = ['a', ' ', '"', "'", '\\', '#', '/', '*', ')', '(', '}', '{', ';', ',', '%', '$', '\n', '-']


def strings(tier, seed):
  out = [''] + list(ALPHA)
  out += [a + b for a in CORE for b in CORE]
  if tier == 'thorough':
    out += [a + b + c for a in CORE[:10] for b in CORE[:10] for c in CORE[:10]]
  else:
    import random
    rnd = random.Random(seed)
    out += [''.join(rnd.choice(CORE) for _ in range(3)) for _ in range(120)]
  out += ['/* x */', '# c', '-- c', "'; DROP TABLE T; --", '%s', '{0}', '%(a)s', '$ {x}', '${', 'a\\', '\\n', "''", '""'[:1] * 2]
  seen, res = set(), []
  for s in out:
    # `${` is reserved program-wide for the documented ${flag} form (ExtractDollarParams scans the
    # rule text): literals containing it are outside the contract's domain (DESIGN.md C10 caveat)
    if '${' in s:
      continue
    if s not in seen:
      seen.add(s)
      res.append(s)
  return res


def lit_dq(s):
  return '"' + s + '"' if '"' not in s and '\n' not in s else None


def lit_sq(s):
  t = s.replace('\\', '\\\\').replace("'", "\\'").replace('\n', '\\n').replace('\t', '\\t')
  return "'" + t + "'"


def lit_tq(s):
  return '"""' + s + '"""' if '"""' not in s and not s.endswith('"') and not s.startswith('"') else None


FORMS = {'dq': lit_dq, 'sq': lit_sq, 'tq': lit_tq}


def _chunk(job):
  form, position, chunk = job
  from vlib import run as R
  res = {'evaluations': 0, 'violation': None}
  lits = [(i, s, FORMS[form](s)) for i, s in enumerate(chunk)]
  lits = [(i, s, l) for i, s, l in lits if l is not None]
  if not lits:
    return res
  flags = None
  if position == 'fact':
    text = ''.join('T(%d, %s);\n' % (i, l) for i, s, l in lits)
    dec = lambda v: v
  elif position == 'list':
    text = ''.join('T(%d, [%s, "z"]);\n' % (i, l) for i, s, l in lits)
    dec = lambda v: json.loads(v)[0]
  elif position == 'record':
    text = ''.join('T(%d, {a: %s, b: 1});\n' % (i, l) for i, s, l in lits)
    dec = lambda v: json.loads(v)['a']
  elif position == 'concat':
    text = ''.join('T(%d, %s ++ "|" ++ %s);\n' % (i, l, l) for i, s, l in lits)
    dec = lambda v: v
  elif position == 'flag_default':
    text = ''.join('@DefineFlag("f%d", %s);\nT(%d, FlagValue("f%d"));\n' % (i, l, i, i) for i, s, l in lits)
    dec = lambda v: v
  elif position == 'user_flag':
    text = ''.join('@DefineFlag("f%d", "d");\nT(%d, FlagValue("f%d"));\n' % (i, i, i) for i, s, l in lits)
    flags = {'f%d' % i: s for i, s, l in lits}
    dec = lambda v: v
  text = '@Engine("sqlite");\n' + text
  try:
    prog = R.compile_program(text, user_flags=flags)
    pre, main = R.statements_for(prog, 'T')
    con = R.connect()
    rows, cols = R.execute(con, pre, main)
  except Exception as e:
    # isolate the offending string
    for i, s, l in lits:
      one = '@Engine("sqlite");\n' + [ln for ln in text.split(';\n') if ('T(%d,' % i) in ln or ('"f%d"' % i) in ln and 'Define' in ln][0] + ';\n'
    res['violation'] = {'form': form, 'position': position, 'strings': [s for _, s, _ in lits][:60],
                        'detail': 'compile/execute failed: %s: %s' % (type(e).__name__, str(e)[:300])}
    return res
  got = {r[0]: r[1] for r in rows}
  for i, s, l in lits:
    res['evaluations'] += 1
    want = s + '|' + s if position == 'concat' else s
    try:
      v = dec(got.get(i))
    except Exception as e:
      v = '<undecodable %r>' % (got.get(i),)
    if v != want:
      import re as _re
      viol = {'form': form, 'position': position, 'string': s, 'literal': l,
              'detail': 'SQLite returned %r, the program says %r' % (v, want)}
      if isinstance(v, str) and '\n' in want and any(
          v == want.replace('\n', '\n' + ' ' * k) for k in range(1, 13)):
        # the SQL pretty-printer indents the continuation lines of a multi-line literal
        viol['kind'] = 'newline-indentation'
        res.setdefault('known_kind', viol)
        continue
      res['violation'] = viol
      return res
  return res


def _single(job):
  """One literal containing a newline, alone in a one-fact / one-rule program (no UNION ALL, no sub-query): the
  value comes back exactly.  (The known finding is about the indentation of UNION ALL arms and sub-queries.)"""
  form, shape, s = job
  from vlib import run as R
  l = FORMS[form](s)
  if l is None:
    return None
  text = '@Engine("sqlite");\n' + (('T(1, %s);\n' % l) if shape == 'fact' else
                                    ('N(1);\nT(x, %s) :- N(x);\n' % l) if shape == 'rule_head' else
                                    ('@DefineFlag("f", %s);\nT(1, FlagValue("f"));\n' % l))
  try:
    prog = R.compile_program(text)
    pre, main = R.statements_for(prog, 'T')
    rows, cols = R.execute(R.connect(), pre, main)
    v = rows[0][1]
  except Exception as e:
    v = '<%s: %s>' % (type(e).__name__, str(e)[:200])
  if v != s:
    return {'form': form, 'position': 'single-' + shape, 'string': s, 'literal': l, 'program': text,
            'detail': 'SQLite returned %r, the program says %r' % (v, s)}
  return None


def e2e(tier, seed):
  ss = strings(tier, seed)
  jobs = []
  for form in FORMS:
    for position in ('fact', 'list', 'record', 'concat', 'flag_default', 'user_flag'):
      if position == 'user_flag' and form != 'dq':
        continue
      for k in range(0, len(ss), 60):
        jobs.append((form, position, ss[k:k + 60]))
  nl = [x for x in ss if '\n' in x][:40 if tier == 'quick' else 400]
  singles = [(form, shape, x) for form in ('sq', 'tq') for shape in ('fact', 'rule_head', 'flag_default') for x in nl]
  with multiprocessing.get_context('fork').Pool(16) as pool:
    rs = pool.map(_chunk, jobs)
    sv = [v for v in pool.map(_single, singles) if v]
  if sv:
    rs.append({'evaluations': 0, 'violation': sv[0]})
  rs.append({'evaluations': len(singles), 'violation': None})
  out = {'name': 'C10-sqlite-roundtrip', 'evaluations': sum(r['evaluations'] for r in rs),
         'distinct_nontrivial': sum(r['evaluations'] for r in rs), 'violations': [],
         'samples': [{'form': 'sq', 'position': 'record', 'string': "'; DROP TABLE T; --", 'returned': 'same'}],
         'rule': 'T(<literal>) and T(FlagValue(f)) through the real compiler and SQLite return the string character '
                 'for character: %d strings (all single characters of a 31-character alphabet, all pairs over 18 '
                 'specials, triples exhaustive/sampled, injection classics) x 3 literal forms x 6 positions; strings with a '
                 'newline additionally alone in a one-fact / one-rule / flag-default program, exact' % len(ss)}
  kk = [r['known_kind'] for r in rs if r.get('known_kind')]
  if kk:
    v = kk[0]
    out['violations'].append({'key': 'C10-sqlite-roundtrip/newline-indentation',
                              'replay': {'obligation': 'C10-sqlite-roundtrip/newline-indentation',
                                         'clause': 'value returned by SQLite == the literal\'s string',
                                         'solver': 'bounded back end (real compiler + SQLite)', 'input': v,
                                         'native': {'case': v, 'detail': v['detail'], 'clause': 'round trip'},
                                         'prop_replay': {'kind': 'e2e'}}})
  for r in rs:
    if r['violation']:
      v = r['violation']
      out['violations'].append({'key': 'C10-sqlite-roundtrip/%s/%s' % (v['form'], v['position']),
                                'replay': {'obligation': 'C10-sqlite-roundtrip/%s/%s' % (v['form'], v['position']),
                                           'clause': 'value returned by SQLite == the literal\'s string',
                                           'solver': 'bounded back end (real compiler + SQLite)',
                                           'input': v, 'native': {'case': v, 'detail': v['detail'], 'clause': 'round trip'},
                                           'prop_replay': {'kind': 'e2e'}}})
      break
  return out


CLI_VALUES = ["plain", "O'Brien", 'say "hi"', "x' || 'y", "a\\b", "a=b", "--name=z", "${name}", "%s {0}", "semi;colon -- c",
              "", " lead", "1", "tab\there"]


def _cli_job(v):
  from vlib import cli
  prog = ('@Engine("sqlite");\n@DefineFlag("name", "dflt");\n@DefineFlag("other", "o");\n'
          'Q(FlagValue("name"), FlagValue("other"), "lit");\n')
  rc, out, err = cli.run(prog, 'run_to_csv', 'Q', ['--name=%s' % v])
  if rc != 0:
    return v, 'logica.py exited with %d: %s' % (rc, (err or out)[-200:])
  rows = cli.csv_rows(out)
  if rows != [(v, 'o', 'lit')]:
    return v, 'returned %r, expected %r' % (rows, [(v, 'o', 'lit')])
  return v, None


def cli_flags(tier):
  """Flag values given on the real command line (logica.ReadUserFlags -> BuildFlagValues -> FlagValue -> SQLite)."""
  vals = [v for v in CLI_VALUES if '${' not in v]      # `${` is reserved program-wide for the flag syntax (DESIGN 9.3)
  with multiprocessing.get_context('fork').Pool(min(16, len(vals))) as pool:
    rs = pool.map(_cli_job, vals)
  out = {'name': 'C10-cli-flags', 'evaluations': len(rs), 'distinct_nontrivial': len(rs), 'violations': [],
         'samples': [{'argv': "--name=O'Brien", 'returned': "O'Brien"}],
         'rule': '`logica.py prog.l run_to_csv Q --name=<value>` in a subprocess for %d values (quotes, backslash, '
                 '=, leading dashes, format placeholders, empty, blanks): the value comes back character for '
                 'character and the other flag keeps its default' % len(rs)}
  for v, msg in rs:
    if msg:
      out['violations'].append({'key': 'C10-cli-flags/%r' % v,
                                'replay': {'obligation': 'C10-cli-flags', 'clause': 'flag value is data',
                                           'solver': 'bounded back end (logica.py in a subprocess)',
                                           'input': {'flag_value': v}, 'native': {'case': {'flag_value': v}, 'detail': msg,
                                                                                  'clause': 'cli flag round trip'},
                                           'prop_replay': {'kind': 'e2e'}}})
  return out


def run(tier, seed):   # noqa: F811
  return [flag_probe(), e2e(tier, seed), cli_flags(tier)]
