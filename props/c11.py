"""C11 — shorthand forms."""
import os, sys
sys.path.insert(0, os.path.dirname(os.path.abspath(__file__)))
import _std

META = {}


def run(tier, seed):
  return _std.std_run('C11', tier, seed)


def replay(spec):
  return _std.std_replay('C11', spec)
