"""C16 — type unification."""
META = {}


def run(tier, seed):
  return []
