"""C09 — every dialect compiles the core language into well-scoped SQL."""
import ast
import inspect
import multiprocessing
import os
import re
import sys
sys.path.insert(0, os.path.dirname(os.path.abspath(__file__)))
import _std
from vlib import run as R, sqlscan, lgen

META = {}
REPO = os.environ.get('VERIF_REPO', '/repo')
ENGINES = ['sqlite', 'duckdb', 'psql', 'bigquery', 'trino', 'presto', 'clickhouse', 'databricks']

# typed programs (facts give every column a ground type, so that type-checked dialects can compile)
FACTS = 'T(1, "a");\nT(2, "b");\nT(2, "b");\nE(1, 2);\nE(2, 3);\n'
PROGRAMS = [
  ('join', 'P(x, z) :- E(x, y), E(y, z);', ['P']),
  ('arith_cmp', 'P(x, x + y * 2, -x) :- E(x, y), x <= y, y != 7;', ['P']),
  ('neg_neg', 'N(x, y) :- E(x, a), y = -a;\nP(x, -y, 0 - (-1)) :- N(x, y), -y < 1;', ['P']),
  ('strings', 'P(s ++ "-" ++ s, x) :- T(x, s), s != "it\'s";', ['P']),
  ('disj_multi', 'P(x) :- E(x, y) | E(y, x);\nP(x) :- T(x, s);', ['P']),
  ('named', 'P(a: x, b: s) :- T(x, s);\nR(u) :- P(a: u);', ['P', 'R']),
  ('assign_if', 'P(x, v, if x > 1 then "big" else "small") :- T(x, s), v == x * 10;', ['P']),
  ('in_list', 'P(x, e) :- T(x, s), e in [x, 5], x in [1, 2];', ['P']),
  ('record', 'P(x, {a: x, b: s}) :- T(x, s);\nF(r.a, r.b) :- P(x, r);', ['P', 'F']),
  ('agg', 'P(x) += y :- E(x, y);\nM(x, lo? Min= y, hi? Max= y) distinct :- E(x, y);\nC() += 1 :- E(x, y);', ['P', 'M', 'C']),
  ('distinct_multi', 'D(x) distinct :- E(x, y);\nD(y) distinct :- E(x, y);', ['D']),
  ('combine', 'P(x, Sum{y :- E(x, y)}) :- T(x, s);\nP2(x, m) :- T(x, s), m == Max{y + x :- E(z, y), z >= x};', ['P', 'P2']),
  ('negation', 'P(x) :- T(x, s), ~E(x, 2);\nP2(x) :- T(x, s), ~(E(x, y), E(y, z));', ['P', 'P2']),
  ('functional', 'F(x) = y * 2 :- E(x, y);\nG(x, F(x)) :- T(x, s);', ['G']),
  ('inject_chain', 'M(x, y) :- E(x, y), x < 2;\nN(x) :- M(x, y), M(y, z);\nO(x) :- N(x), T(x, s);', ['O']),
  ('with_noinject', '@NoInject(M);\nM(x, y) :- E(x, y), x < 3;\nN(x) distinct :- M(x, y);\nO(x) :- N(x), M(x, z);', ['O']),
  ('order_limit', '@OrderBy(P, "col0", "col1 desc");\n@Limit(P, 2);\nP(x, y) :- E(x, y);\nR(x) :- P(x, y);', ['P', 'R']),
  ('list_agg', 'L(x) List= y :- E(x, y);\nS(x) Set= y :- E(x, y);\nZ(x, Size(l)) :- L(x) = l;', ['L', 'S', 'Z']),
  ('recursion', 'TC(x, y) distinct :- E(x, y);\nTC(x, z) distinct :- TC(x, y), E(y, z);', ['TC']),
  ('functor', 'K(x) :- E(x, y);\nF(x * 10) :- K(x);\nE2(x, y) :- E(y, x);\nG := F(E: E2);\nQ(x) :- G(x) | F(x);', ['Q']),
  # one WITH table shared by two grounded predicates and the main one
  ('with_three_parents', 'C(x) distinct :- E(x, y), x > 0;\nB(x) distinct :- C(x);\n@Ground(G);\nG(x) :- B(x);\n'
                         '@Ground(H);\nH(x) :- B(x), x > 1;\nQ(x) :- G(x), H(x), B(x);', ['Q']),
  ('argmax', 'Top(x) ArgMax= y -> y :- E(x, y);', ['Top']),
  # aggregating expressions without a body, alone and next to one with a body
  ('bodyless_combine', 'P(x, l) :- T(x, s), l List= x;\nP2(x, sm, m) :- T(x, s), sm Sum= (y :- E(x, y)), m Max= x + 10;\n'
   'Tot() = Sum{y :- E(x, y)};\nP3(x, Tot()) :- T(x, s);', ['P', 'P2', 'P3']),
  ('constant_columns', 'K("cat", x) :- T(x, s);\nP(x) :- K("dog", x);\nP2(x, 1, "a") :- K("cat", x);', ['P', 'P2']),
  ('paren_groups', 'P(x) :- (T(x, s), E(x, y)), x > 0;\nP2(x) :- (T(x, s), (E(x, 1) | x == 1)), x < 3;', ['P', 'P2']),
  # rules whose only constraints are type hints; an empty list that reaches an output column
  ('type_hint_only', 'P(x, s) :- T(x, s), x ~ Num;\nC(s, n? += 1) distinct :- T(x, s), x ~ Num;\n'
                     'H(x) :- T(x, s), s ~ Str, x ~ Num;', ['P', 'C', 'H']),
  ('empty_list_output', 'Q(x, l) :- x = 1, l = [];\nK(x, l) :- x = 1, l = [], l ~ [Num];\nF2(1, []);', ['Q', 'K', 'F2']),
  ('double_negation', 'P(x) :- T(x, s), ~(~E(x, y));\nP2(x) :- T(x, s), ~(T(x, s), ~E(x, 1));', ['P', 'P2']),
]


def interface():
  """Every dialect method the translator calls exists in every dialect class with that arity."""
  out = {'name': 'C09-dialect-interface', 'evaluations': 0, 'distinct_nontrivial': 0, 'violations': [], 'samples': [],
         'rule': 'call sites `...dialect.M(args)` found in compiler/*.py by AST; each of the 8 classes of '
                 'dialects.DIALECTS must accept that call (inspect.signature bind); templates of BuiltInFunctions / '
                 'InfixOperators must be %s-style or {i}-style, not both', 'exhaustive': True}
  sys.path.insert(0, REPO)
  from compiler import dialects
  calls = {}
  for rel in ('compiler/expr_translate.py', 'compiler/rule_translate.py', 'compiler/universe.py'):
    tree = ast.parse(open(os.path.join(REPO, rel)).read())
    for n in ast.walk(tree):
      if isinstance(n, ast.Call) and isinstance(n.func, ast.Attribute):
        v = n.func.value
        if (isinstance(v, ast.Attribute) and v.attr == 'dialect') or (isinstance(v, ast.Name) and v.id == 'dialect'):
          calls.setdefault((n.func.attr, len(n.args), tuple(k.arg for k in n.keywords)), []).append('%s:%d' % (rel, n.lineno))
  for (meth, nargs, kws), sites in sorted(calls.items()):
    for name, cls in sorted(dialects.DIALECTS.items()):
      out['evaluations'] += 1
      out['distinct_nontrivial'] += 1
      f = getattr(cls, meth, None)
      msg = None
      if f is None:
        msg = 'dialect %s has no method %s (called at %s)' % (name, meth, sites[0])
      else:
        try:
          inspect.signature(f).bind(*([None] * (nargs + 1)), **{k: None for k in kws})
        except TypeError as e:
          msg = 'dialect %s: %s%s called with %d arguments at %s: %s' % (
              name, meth, inspect.signature(f), nargs, sites[0], e)
      if msg:
        out['violations'].append({'key': 'C09-dialect-interface/%s.%s' % (name, meth), 'replay': {
            'obligation': 'C09-dialect-interface/%s.%s' % (name, meth), 'clause': 'method exists with the arity of its call sites',
            'solver': 'exhaustive over dialect classes x call sites', 'native': {'case': sites, 'detail': msg, 'clause': 'arity'}}})
  out['samples'].append({'call_sites': {k[0]: v[:2] for k, v in list(calls.items())[:4]}})
  for name, cls in sorted(dialects.DIALECTS.items()):
    d = cls()
    for table, kind in ((d.BuiltInFunctions(), 'function'), (d.InfixOperators(), 'infix')):
      for fn, tpl in table.items():
        if not tpl:
          continue
        out['evaluations'] += 1
        pct = len(re.findall(r'%s', tpl))
        br = re.findall(r'\{(\w*)\}', tpl)
        bad = None
        if pct and br:
          bad = 'mixes %s and {} placeholders'
        elif kind == 'infix' and pct not in (0, 2):
          bad = 'infix template with %d %%s slots' % pct
        elif kind == 'function' and pct > 1:
          bad = 'function template with %d %%s slots' % pct
        elif pct and '%' in tpl.replace('%%', '').replace('%s', ''):
          bad = 'stray % in a %-style template'
        if bad:
          out['violations'].append({'key': 'C09-dialect-interface/template/%s.%s' % (name, fn), 'replay': {
              'obligation': 'C09-dialect-interface/template/%s.%s' % (name, fn), 'clause': 'well-formed template',
              'solver': 'exhaustive', 'native': {'case': tpl, 'detail': bad, 'clause': 'template'}}})
  return out


def _compile(job):
  engine, name, body, preds = job
  text = '@Engine("%s");\n' % engine + FACTS + body
  res = []
  try:
    prog = R.compile_program(text)
  except Exception as e:
    kind = type(e).__name__
    return [(engine, name, None, 'diag' if kind in R.DIAG else 'internal', '%s: %s' % (kind, re.sub(r'\x1b\[[0-9;]*m', '', str(e))[:200]))]
  from compiler import dialects
  dname = dialects.Get(engine).Name()
  for p in preds:
    try:
      prog.FormattedPredicateSql(p)
      ex = prog.execution
      stmts = [s for s in ex.defines_and_exports if not s.startswith('-- ')] + [ex.main_predicate_sql]
      probs = []
      for st in stmts:
        body_sql = '\n'.join(l for l in st.split('\n') if not l.startswith('-- '))
        probs += sqlscan.check(body_sql, dname)
      res.append((engine, name, p, 'sql', probs))
    except Exception as e:
      kind = type(e).__name__
      res.append((engine, name, p, 'diag' if kind in R.DIAG else 'internal',
                  '%s: %s' % (kind, re.sub(r'\x1b\[[0-9;]*m', '', str(e))[:200])))
  return res


def totality(tier):
  jobs = [(e, n, b, p) for e in ENGINES for (n, b, p) in PROGRAMS]
  with multiprocessing.get_context('fork').Pool(16) as pool:
    rs = pool.map(_compile, jobs)
  out = {'name': 'C09-totality-and-shape', 'evaluations': 0, 'distinct_nontrivial': 0, 'violations': [], 'samples': [],
         'sql_outcomes': 0, 'diagnostic_outcomes': 0,
         'rule': '%d typed programs x 8 engines: the outcome is SQL or one of the four diagnostic exception types; every '
                 'emitted statement passes the structure scanner (vlib/sqlscan.py: literals and brackets balance under '
                 'the dialect\'s lexical rules, no comment token, no placeholder, WITH defined before use, alias.column '
                 'resolves to an enclosing FROM)' % len(PROGRAMS)}
  for r in rs:
    for engine, name, pred, kind, info in r:
      out['evaluations'] += 1
      if kind == 'sql':
        out['sql_outcomes'] += 1
        out['distinct_nontrivial'] += 1
        if info:
          out['violations'].append({'key': 'C09-totality-and-shape/%s/%s' % (engine, name), 'replay': {
              'obligation': 'C09-totality-and-shape/%s/%s/%s' % (engine, name, pred), 'clause': 'emitted SQL is structurally well-formed',
              'solver': 'bounded back end (real compiler, structure scanner)',
              'input': {'engine': engine, 'program': name}, 'native': {'case': {'engine': engine, 'program': name, 'predicate': pred},
                                                                       'detail': '; '.join(info[:3]), 'clause': 'well-formed'}}})
      elif kind == 'diag':
        out['diagnostic_outcomes'] += 1
      else:
        out['violations'].append({'key': 'C09-totality-and-shape/%s/%s' % (engine, name), 'replay': {
            'obligation': 'C09-totality-and-shape/%s/%s/%s' % (engine, name, pred), 'clause': 'compilation succeeds or fails with a diagnostic',
            'solver': 'bounded back end (real compiler)', 'input': {'engine': engine, 'program': name},
            'native': {'case': {'engine': engine, 'program': name, 'predicate': pred}, 'detail': 'internal error: ' + str(info), 'clause': 'totality'}}})
  out['samples'].append({'engine': 'trino', 'program': PROGRAMS[0][1]})
  return out


def sqlite_calibration(tier, seed):
  """The scanner accepts every statement of the SQLite catalogue (all of which execute)."""
  out = {'name': 'C09-scanner-calibration', 'evaluations': 0, 'distinct_nontrivial': 0, 'violations': [], 'samples': [],
         'rule': 'every statement the catalogue schemas compile to on SQLite (all of which execute in the other checks) '
                 'is accepted by the structure scanner'}
  for s in lgen.ALL:
    if s['name'] in ('named_args_reordered',):
      continue
    try:
      prog = R.compile_program(s['text'])
      for p in s['spec']:
        pre, main = R.statements_for(prog, p)
        for st in [x for x in pre if 'ATTACH' not in x] + [main]:
          body_sql = '\n'.join(l for l in st.split('\n') if not l.startswith('-- '))
          probs = sqlscan.check(body_sql, 'SqLite')
          out['evaluations'] += 1
          if probs:
            out['violations'].append({'key': 'C09-scanner-calibration/%s' % s['name'], 'replay': {
                'obligation': 'C09-scanner-calibration/%s/%s' % (s['name'], p), 'clause': 'scanner accepts executable SQL',
                'solver': 'bounded', 'native': {'case': {'program': s['text'], 'predicate': p}, 'detail': '; '.join(probs[:3]),
                                                'clause': 'calibration'}}})
    except Exception:
      pass
  out['distinct_nontrivial'] = out['evaluations']
  return out


def run(tier, seed):
  return [interface(), totality(tier), sqlite_calibration(tier, seed)] + _std.std_run('C09', tier, seed, schemas_tag=False)


def replay(spec):
  return _std.std_replay('C09', spec)
