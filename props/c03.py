"""C03 — recursion is the bounded iteration."""
import os, sys
sys.path.insert(0, os.path.dirname(os.path.abspath(__file__)))
import _std

META = {}


def run(tier, seed):
  return _std.std_run('C03', tier, seed, monitors=False)


def replay(spec):
  return _std.std_replay('C03', spec)
