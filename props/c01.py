"""C01 — bounded pipeline contracts (schema catalogue)."""
from vlib import lgen, schemas, monrun, run as R

META = {
  'level': 'other',
  'explanation': 'Mechanism contracts proved deductively on the units listed; the end-to-end statement '
                 '(all programs x all databases) is exercised as bounded schema contracts on the real '
                 'compiler + SQLite against per-schema spec comprehensions. The composition from unit '
                 'contracts to all programs goes through SQL semantics and is not proved.',
  'assumptions': ['SQLite implements SELECT-FROM-WHERE / UNION ALL / GROUP BY / aggregates as bag algebra',
                  'the schema catalogue is a fixed finite set of program shapes'],
}


REWRITE_SKIP = {'named_args_reordered'}          # known finding of C01, not re-reported through rewrites


def rewritten_schemas(tier, seed):
  """Meaning-preserving rewrites of the core / aggregation / sugar schemas: the same spec must hold."""
  import random
  from vlib import variants
  rnd = random.Random(seed + 5)
  out = []
  for s in lgen.ALL:
    if not set(s['tags']) & {'C01', 'C02', 'C11'} or s['name'] in REWRITE_SKIP or s.get('workflow') or s.get('ordered'):
      continue
    rs = variants.rewrites(s['text'], s.get('tables') or {})
    if tier == 'quick' and len(rs) > 2:
      rs = rnd.sample(rs, 2)
    # the same program with type checking switched on (a different compilation path: type inference,
    # CheckOrderByClause); programs that type checking rejects with a diagnostic are left out
    if lgen.E in s['text'] and (tier != 'quick' or rnd.random() < 0.3):
      typed = s['text'].replace(lgen.E, lgen.E_TYPED)
      try:
        prog = R.compile_program(typed)
        for p_ in s['spec']:
          R.statements_for(prog, p_)
        rs.append(('type-checked', typed))
      except Exception as e:
        if type(e).__name__ not in ('RuleCompileException', 'TypeErrorCaughtException', 'ParsingException', 'FunctorError'):
          rs.append(('type-checked', typed))     # an internal error: let the schema run report it
    for kind, text in rs:
      d = dict(s)
      d['name'] = '%s~%s' % (s['name'], kind)
      d['text'] = text
      d['cols'] = {}
      d['cap'] = {'quick': 40, 'thorough': 300}
      d['variant'] = kind
      out.append(d)
  return out


def run(tier, seed):
  rw = rewritten_schemas(tier, seed)
  r = schemas.run_schemas(rw, tier, seed, 'C01-rewrites')
  r['rule'] = ('core / aggregation / sugar schemas rewritten by meaning-preserving transformations (every extensional '
               'table read through one more injectible predicate; integer literals of bodies replaced by calls of '
               'constant functions; the first two conjuncts of each body in parentheses; `~(~T(args))` appended after '
               'a positive literal T(args); type checking switched on): the original spec comprehension must hold (%d rewritten programs)' % len(rw))
  return [schemas.run_schemas(lgen.by_tag('C01'), tier, seed, 'C01-schemas'), r,
          monrun.run_monitors('C01', tier, seed)]


def replay(spec):
  if spec.get('kind') == 'monitor':
    r = monrun.run_monitors('C01', 'quick', 0)
    print('             ', [v['replay']['clause'] for v in r['violations']] or 'holds')
    return not r['violations']
  return schemas.replay_schema(spec, lgen.by_tag('C01') + rewritten_schemas('thorough', 0))
