"""C12 — imports isolate modules and equal one flattened program: bounded contract on
ParseFile(main, import_root=...) + compile + SQLite over a set of import graphs."""
import os
import shutil
import sys
import tempfile
sys.path.insert(0, os.path.dirname(os.path.abspath(__file__)))
import _std
from vlib import run as R

META = {}

E = '@Engine("sqlite");\n'

# each case: files {relative path: text}, main text, import roots (list of dirs relative to the scratch dir, or one),
# expected rows per predicate (what the hand-flattened program returns), or expected error substring
CASES = [
  dict(name='chain3',
       files={'r/a/one.l': 'import a.two.Two;\nHelper(x) :- x in [1, 2];\nOne(x) :- Helper(x) | Two(x);\n',
              'r/a/two.l': 'import b.three.Three;\nHelper(x) :- x in [10];\nTwo(x) :- Helper(x) | Three(x);\n',
              'r/b/three.l': 'Helper(x) :- x in [100];\nThree(x + 1) :- Helper(x);\n'},
       main='import a.one.One;\nHelper(x) :- x in [7];\nQ(x) :- One(x) | Helper(x);\n', roots='r',
       expect={'Q': [(1,), (2,), (10,), (101,), (7,)], 'Helper': [(7,)]}),
  dict(name='diamond_once',
       files={'r/x/left.l': 'import z.base.Base;\nL(x) :- Base(x), x > 1;\n',
              'r/y/right.l': 'import z.base.Base;\nRt(x) :- Base(x), x < 3;\n',
              'r/z/base.l': 'Base(x) :- x in [1, 2, 3];\n'},
       main='import x.left.L;\nimport y.right.Rt;\nimport z.base.Base;\nQ(x) :- L(x), Rt(x);\nN() += 1 :- Base(x);\n',
       roots='r', expect={'Q': [(2,)], 'N': [(3,)]}),
  dict(name='same_base_name_depth2',
       files={'r/a/util.l': 'Helper(x) :- x in [1, 2];\nPa(x) :- Helper(x);\n',
              'r/b/util.l': 'Helper(x) :- x in [10];\nPb(x) :- Helper(x);\n'},
       main='import a.util.Pa;\nimport b.util.Pb;\nQ(x) :- Pa(x) | Pb(x);\n', roots='r',
       expect={'Q': [(1,), (2,), (10,)]}),
  dict(name='same_base_name_depth3',
       files={'r/p/a/util.l': 'Helper(x) :- x in [1];\nPa(x) :- Helper(x);\n',
              'r/p/b/util.l': 'Helper(x) :- x in [10];\nPb(x) :- Helper(x);\n',
              'r/q/b/util.l': 'Helper(x) :- x in [100];\nPc(x) :- Helper(x);\n'},
       main='import p.a.util.Pa;\nimport p.b.util.Pb;\nimport q.b.util.Pc;\nQ(x) :- Pa(x) | Pb(x) | Pc(x);\n', roots='r',
       expect={'Q': [(1,), (10,), (100,)]}),
  # same base name, and one of the two imports the other (each keeps its own private Scale)
  dict(name='same_base_name_one_imports_other',
       files={'r/common/util.l': 'Scale(x) = x * 2;\nBase(x) :- x in [1, 2];\n',
              'r/geo/util.l': 'import common.util.Base;\nScale(x) = x * 100;\nGeo(Scale(x)) :- Base(x);\n'},
       main='import geo.util.Geo;\nimport common.util.Scale;\nQ(x) :- Geo(x);\nQ2(Scale(1));\n', roots='r',
       expect={'Q': [(100,), (200,)], 'Q2': [(2,)]}),
  dict(name='same_base_name_chain_then_more',
       files={'r/a/util.l': 'import b.util.Pb;\nHelper(x) :- x in [1];\nPa(x) :- Helper(x) | Pb(x);\n',
              'r/b/util.l': 'import c.other.Pc;\nHelper(x) :- x in [10];\nPb(x) :- Helper(x) | Pc(x);\n',
              'r/c/other.l': 'Helper(x) :- x in [100];\nPc(x) :- Helper(x);\n'},
       main='import a.util.Pa;\nimport c.other.Pc;\nQ(x) :- Pa(x);\nQ2(x) :- Pc(x);\n', roots='r',
       expect={'Q': [(1,), (10,), (100,)], 'Q2': [(100,)]}),
  dict(name='alias',
       files={'r/m/lib.l': 'Twice(x) = x * 2;\nSquare(x) = x * x;\n'},
       main='import m.lib.Twice as Dbl;\nimport m.lib.Square;\nTwice(x) = x + 1000;\nQ(Dbl(3), Square(3), Twice(3));\n',
       roots='r', expect={'Q': [(6, 9, 1003)]}),
  dict(name='nested_self_reference',
       files={'r/m/f.l': 'Twice(x) = x * 2;\nQuad(x) = Twice(Twice(x));\n'},
       main='import m.f.Quad;\nTwice(x) = x + 1000;\nQ(Quad(3), Twice(1));\n', roots='r', expect={'Q': [(12, 1001)]}),
  dict(name='two_roots_first_wins',
       files={'r1/lib/v.l': 'V() = 1;\n', 'r2/lib/v.l': 'V() = 2;\n', 'r2/lib/w.l': 'W() = 20;\n'},
       main='import lib.v.V;\nimport lib.w.W;\nQ(V(), W());\n', roots=['r1', 'r2'], expect={'Q': [(1, 20)]}),
  dict(name='functor_in_module',
       files={'r/m/g.l': 'Src(x) :- x in [1, 2];\nAlt(x) :- x in [5];\nF(x * 10) :- Src(x);\nG := F(Src: Alt);\n'},
       main='import m.g.G;\nimport m.g.F;\nQ(x) :- G(x) | F(x);\n', roots='r', expect={'Q': [(50,), (10,), (20,)]}),
  # rejections: all through ParsingException
  dict(name='circular', files={'r/a/x.l': 'import a.y.Y;\nX(1) :- Y(1);\n', 'r/a/y.l': 'import a.x.X;\nY(1) :- X(1);\n'},
       main='import a.x.X;\nQ(x) :- X(x);\n', roots='r', error='Circular'),
  dict(name='undefined_import', files={'r/a/x.l': 'X(1);\n'}, main='import a.x.Nope;\nQ(x) :- Nope(x);\n', roots='r',
       error='not defined'),
  dict(name='unused_import', files={'r/a/x.l': 'X(1);\n'}, main='import a.x.X;\nQ(1);\n', roots='r', error='not used'),
  dict(name='redefinition', files={'r/a/x.l': 'X(1);\n'}, main='import a.x.X;\nX_X(3);\nQ(x) :- X(x);\n', roots='r',
       error='overridden'),
  dict(name='similar_names_ok', files={'r/a/x.l': 'X(1);\n'}, main='import a.x.X;\nA_X(2);\nXx(3);\nQ(x) :- X(x) | A_X(x) | Xx(x);\n',
       roots='r', expect={'Q': [(1,), (2,), (3,)]}),
  dict(name='override', files={'r/a/x.l': 'X(1);\nY(x) :- X(x);\n'}, main='import a.x.Y;\nX_X(2);\nQ(x) :- Y(x);\n',
       roots='r', error='overridden'),
  dict(name='redefine_imported_name', files={'r/a/x.l': 'X(1);\nX(2);\n'}, main='import a.x.X;\nX(3);\nQ(x) :- X(x);\n', roots='r',
       error='overridden'),
  dict(name='redefine_imported_alias', files={'r/a/x.l': 'X(1);\n'}, main='import a.x.X as G;\nG(x) :- x in [7, 8];\nQ(x) :- G(x);\n',
       roots='r', error='overridden'),
  # same-named private predicates with several aggregating rules (auxiliary predicates of the rewrite) in two files
  dict(name='private_multi_body_aggregates',
       files={'r/a/stats.l': 'Tot(k) += v :- k == 1, v in [1, 2];\nTot(k) += 10 :- k == 1;\nSa(k, t) :- Tot(k) = t;\n',
              'r/b/stats.l': 'Tot(k) += v :- k == 1, v in [100];\nTot(k) += 1000 :- k == 1;\nSb(k, t) :- Tot(k) = t;\n'},
       main='import a.stats.Sa;\nimport b.stats.Sb;\nQ(a, b) :- Sa(1, a), Sb(1, b);\n', roots='r', expect={'Q': [(13, 1100)]}),
  # two imports of one predicate name from different modules, told apart by an alias
  dict(name='same_predicate_name_alias',
       files={'r/shop/data.l': 'Item(1);\nItem(2);\n', 'r/geo/data.l': 'Item(10);\n'},
       main='import shop.data.Item;\nimport geo.data.Item as Place;\nQ(x) :- Item(x) | Place(x);\nP2(x) :- Place(x);\n', roots='r',
       expect={'Q': [(1,), (2,), (10,)], 'P2': [(10,)]}),
  dict(name='same_predicate_name_two_aliases',
       files={'r/shop/data.l': 'Item(1);\n', 'r/geo/data.l': 'Item(10);\n'},
       main='import shop.data.Item as A;\nimport geo.data.Item as B;\nQ(x, y) :- A(x), B(y);\n', roots='r',
       expect={'Q': [(1, 10)]}),
  # a library module (not the main file) defining a predicate under the name / alias it imports is rejected as well
  dict(name='module_redefines_import',
       files={'r/base/v.l': 'Value(3);\n', 'r/mid/m.l': 'import base.v.Value;\nValue(10);\nMid(x) :- Value(x);\n'},
       main='import mid.m.Mid;\nQ(x) :- Mid(x);\n', roots='r', error='import'),
  dict(name='module_redefines_import_alias',
       files={'r/base/v.l': 'Value(3);\n', 'r/mid/m.l': 'import base.v.Value as V;\nV(10);\nMid(x) :- V(x);\n'},
       main='import mid.m.Mid;\nQ(x) :- Mid(x);\n', roots='r', error='import'),
  # a module with a predicate whose name is the module's prefix + the name of another of its predicates
  dict(name='module_defines_prefixed_twin',
       files={'r/lib/util.l': 'Item(1);\nUtil_Item(2);\nBoth(x) :- Item(x) | Util_Item(x);\nOnlyTwin(x) :- Util_Item(x);\n'},
       main='import lib.util.Both;\nimport lib.util.OnlyTwin;\nQ(x) :- Both(x);\nQ2(x) :- OnlyTwin(x);\n', roots='r',
       expect={'Q': [(1,), (2,)], 'Q2': [(2,)]}),
  dict(name='missing_file', files={}, main='import no.such.P;\nQ(x) :- P(x);\n', roots='r', error='not found'),
]


def run_case(c, base):
  for rel, text in c['files'].items():
    path = os.path.join(base, rel)
    os.makedirs(os.path.dirname(path), exist_ok=True)
    open(path, 'w').write(text)
  os.makedirs(os.path.join(base, 'r'), exist_ok=True)
  roots = c['roots']
  root = os.path.join(base, roots) if isinstance(roots, str) else [os.path.join(base, r) for r in roots]
  parse, universe, _ = R.mods()
  try:
    rules = parse.ParseFile(E + c['main'], import_root=root)['rule']
    prog = universe.LogicaProgram(rules)
  except parse.ParsingException as e:
    text = str(e) + ' ' + getattr(e, '_formatted_error_text', '')
    if c.get('error') and (c['error'].lower() in text.lower() or os.environ.get('LOGICA_PARSER') == 'CPP'):
      return None      # the C++ parser words its messages differently; the exception type is what counts
    return 'rejected with ParsingException %r, expected %s' % (str(e)[:120], c.get('expect') or c.get('error'))
  except Exception as e:
    return 'raised %s: %s (a parsing error or rows expected)' % (type(e).__name__, str(e)[:160])
  if c.get('error'):
    return 'accepted, but a parsing error containing %r is expected' % c['error']
  for p, want in c['expect'].items():
    pre, main = R.statements_for(prog, p)
    rows, cols = R.execute(R.connect(), pre, main)
    if R.canon(rows) != R.canon(want):
      return 'predicate %s: rows %r, the flattened program gives %r' % (p, sorted(rows), sorted(want))
  return None


def import_graphs(tier):
  out = {'name': 'C12-import-graphs', 'evaluations': 0, 'distinct_nontrivial': 0, 'violations': [], 'samples': [],
         'rule': 'import graphs (chain of 3, diamond, shared base names at depth 2 and 3, alias, a predicate nested in '
                 'itself inside a module, two import roots, a functor made inside a module, and the six rejection '
                 'cases): rows on SQLite equal those of the hand-flattened program; rejections are ParsingException. '
                 'Both parsers in the thorough tier.'}
  parsers = ['PY'] + (['CPP'] if tier == 'thorough' else [])
  for parser in parsers:
    os.environ['LOGICA_PARSER'] = parser
    for c in CASES:
      base = tempfile.mkdtemp(prefix='verif_c12_')
      try:
        msg = run_case(c, base)
      finally:
        shutil.rmtree(base, ignore_errors=True)
      out['evaluations'] += 1
      out['distinct_nontrivial'] += 1
      if msg:
        out['violations'].append({'key': 'C12-import-graphs/%s' % c['name'],
                                  'replay': {'obligation': 'C12-import-graphs/%s' % c['name'],
                                             'clause': 'rows of the split program == rows of the flattened program',
                                             'solver': 'bounded back end (real ParseFile + compiler + SQLite, parser %s)' % parser,
                                             'input': {'files': c['files'], 'main': c['main'], 'roots': c['roots']},
                                             'native': {'case': {'files': c['files'], 'main': c['main']}, 'detail': msg,
                                                        'clause': 'import graph'},
                                             'prop_replay': {'kind': 'import', 'case': c['name']}}})
    out['samples'].append({'parser': parser, 'case': CASES[0]['name'], 'main': CASES[0]['main']})
  os.environ.pop('LOGICA_PARSER', None)
  return out


def _cli_job(i):
  from vlib import cli
  c = CASES[i]
  base = tempfile.mkdtemp(prefix='verif_c12c_')
  try:
    for rel, text in c['files'].items():
      path = os.path.join(base, rel)
      os.makedirs(os.path.dirname(path), exist_ok=True)
      open(path, 'w').write(text)
    roots = [c['roots']] if isinstance(c['roots'], str) else list(c['roots'])
    env = {'LOGICAPATH': ':'.join(os.path.join(base, r) for r in roots)}
    n = 0
    if c.get('error'):
      pred = 'Q'
      rc, out, err = cli.run(E + c['main'], 'run_to_csv', pred, env=env)
      n += 1
      if rc == 0:
        return n, 'logica.py accepted the program (exit 0), a parsing error containing %r is expected' % c['error']
      if 'Traceback' in err:
        return n, 'logica.py ended with a traceback instead of a diagnostic: %s' % err[-200:]
      return n, None
    for p_, want in c['expect'].items():
      rc, out, err = cli.run(E + c['main'], 'run_to_csv', p_, env=env)
      n += 1
      if rc != 0:
        return n, 'logica.py exited with %d on predicate %s: %s' % (rc, p_, (err or out)[-200:])
      rows = cli.csv_rows(out)
      if R.canon([tuple(str(v) for v in r) for r in rows]) != R.canon([tuple(str(v) for v in r) for r in want]):
        return n, 'predicate %s through logica.py with LOGICAPATH: rows %r, the flattened program gives %r' % (p_, sorted(rows), sorted(want))
    return n, None
  finally:
    shutil.rmtree(base, ignore_errors=True)


def cli_graphs(tier):
  """The import graphs through the command line tool: import roots come from LOGICAPATH (logica.GetImportRoot)."""
  import multiprocessing
  out = {'name': 'C12-import-graphs-cli', 'evaluations': 0, 'distinct_nontrivial': 0, 'violations': [], 'samples': [],
         'rule': 'the same import graphs run by `logica.py main.l run_to_csv <pred>` in a subprocess with the import '
                 'root(s) given through LOGICAPATH (one root, and two roots separated by a colon): same rows; rejected '
                 'programs end with a non-zero exit code and no traceback'}
  idx = list(range(len(CASES))) if tier == 'thorough' else \
      [i for i, c in enumerate(CASES) if c['name'] in ('chain3', 'two_roots_first_wins', 'same_base_name_depth2', 'circular',
                                                        'same_base_name_one_imports_other', 'alias')]
  with multiprocessing.get_context('fork').Pool(min(16, len(idx))) as pool:
    rs = pool.map(_cli_job, idx)
  for i, (n, msg) in zip(idx, rs):
    c = CASES[i]
    out['evaluations'] += n
    out['distinct_nontrivial'] += n
    if msg:
      out['violations'].append({'key': 'C12-import-graphs-cli/%s' % c['name'],
                                'replay': {'obligation': 'C12-import-graphs-cli/%s' % c['name'],
                                           'clause': 'rows through logica.py + LOGICAPATH == rows of the flattened program',
                                           'solver': 'bounded back end (logica.py in a subprocess)',
                                           'input': {'files': c['files'], 'main': c['main'], 'roots': c['roots']},
                                           'native': {'case': {'files': c['files'], 'main': c['main']}, 'detail': msg,
                                                      'clause': 'import graph through the command line'},
                                           'prop_replay': {'kind': 'import', 'case': c['name']}}})
  out['samples'].append({'case': CASES[idx[0]]['name'], 'LOGICAPATH': '<scratch>/' + str(CASES[idx[0]]['roots'])})
  return out


EMPTY_ENTRY = [
  # (LOGICAPATH, expected rows of Q): an empty entry of LOGICAPATH is the current directory, in its position
  (':{cwd}/lib', [('1',)]), ('{cwd}/lib:', [('2',)]), ('{cwd}/lib::{cwd}/other', [('2',)]), ('{cwd}/other:', [('1',)]),
]


def cli_empty_entry(tier):
  from vlib import cli
  out = {'name': 'C12-logicapath-empty-entry', 'evaluations': 0, 'distinct_nontrivial': 0, 'violations': [], 'samples': [],
         'rule': 'logica.py with a LOGICAPATH that has an empty entry (leading / trailing / double colon): the empty entry '
                 'is the current directory at that position of the root list -- a module present in the current directory '
                 'and in a later root resolves to the first of them; a module only in the current directory is found'}
  files = {'prices.l': 'Price(1);\n', 'lib/prices.l': 'Price(2);\n', 'other/unrelated.l': 'U(0);\n'}
  for lp, want in EMPTY_ENTRY:
    rc, so, se = cli.run(E + 'import prices.Price;\nQ(x) :- Price(x);\n', 'run_to_csv', 'Q', env={'LOGICAPATH': lp},
                         extra_files=files)
    out['evaluations'] += 1
    out['distinct_nontrivial'] += 1
    rows = cli.csv_rows(so) if rc == 0 else None
    if rows != want:
      out['violations'].append({'key': 'C12-logicapath-empty-entry/%s' % lp,
                                'replay': {'obligation': 'C12-logicapath-empty-entry/%s' % lp,
                                           'clause': 'import resolves in the order of the roots, the empty entry being the current directory',
                                           'solver': 'bounded back end (logica.py in a subprocess)',
                                           'input': {'LOGICAPATH': lp, 'files': files},
                                           'native': {'case': {'LOGICAPATH': lp, 'files': files}, 'clause': 'import roots',
                                                      'detail': 'rows %r (exit %s, %s), expected %r' % (rows, rc, (se or '')[-150:], want)}}})
  out['samples'].append({'LOGICAPATH': EMPTY_ENTRY[0][0], 'rows': EMPTY_ENTRY[0][1]})
  return out


def run(tier, seed):
  return [import_graphs(tier), cli_graphs(tier), cli_empty_entry(tier)]


def replay(spec):
  o = import_graphs('quick')
  o2 = cli_graphs('thorough')
  bad = [v for v in o['violations'] + o2['violations'] if v['key'].endswith('/' + spec.get('case', ''))]
  print('             ', [v['replay']['native']['detail'] for v in bad] or 'holds')
  return not bad
