#!/usr/bin/env python3
"""Regenerates MANIFEST.json from the table below (keeps it valid at all times)."""
import json, os
HERE = os.path.dirname(os.path.abspath(__file__))
ALL = ['C%02d' % i for i in range(1, 21)]

CLAIMED = {
  'C18': dict(
    category='proof',
    text='Clause construction and non-inlining are postconditions on the real LimitOf / LimitClause / '
         'OrderBy / OrderByClause / OkInjection, proved for all annotation maps and every K from VCs '
         'regenerated from /repo on each run; the same contracts run natively as a bounded cross-check.',
    design_ref='DESIGN.md section 4, C18',
    note='Assumes: FieldValuesAsList (deepcopy + del) by contract, @OrderBy keys are strings, '
         'str.join / % formatting semantics, SQL ORDER BY/LIMIT semantics of the engine; VC generator trusted.',
    technique='contract-based deductive verification: Python-AST VC generation + z3/cvc5; bounded native contract execution as cross-check'),
  'C15': dict(
    category='other',
    text='IsWhole and RemoveComments proved modularly against an assumed contract of the scanner\'s yields; '
         'StripSpaces (maximal slice without leading/trailing white space) and HeritageAwareString.GetSlice '
         '(span invariant heritage[start:stop] == text preserved under its weakest precondition) are proved '
         'for all strings from VCs on the current source; the scanner and the whole-parser layout invariance '
         'are bounded contracts, so the property as a whole is claimed below proof level.',
    design_ref='DESIGN.md section 4, C15',
    note='isspace is uninterpreted; HeritageAwareString content behaves as str; z3/cvc5 string theory; bounded parts are bounded.',
    technique='contract-based deductive verification (Python-AST VCs, z3 + cvc5 strings) + bounded native contract execution'),
  'C01': dict(
    category='other',
    text='Bounded schema contracts: for a catalogue of program shapes the rows and column names returned by the '
         'real compiler + SQLite equal a per-schema Python comprehension on every small database (duplicates '
         'included). Deductive unit contracts on the mechanisms are added as they are built (see evidence).',
    design_ref='DESIGN.md section 4, C01',
    note='SQLite bag semantics assumed; catalogue is finite; composition from units to all programs is not proved.',
    technique='contracts on the real compile+execute path checked on all small databases (bounded stand-in); deductive unit contracts where listed'),
  'C02': dict(
    category='other',
    text='Aggregate UDF classes under contract over all short step() histories; aggregation / negation / combine '
         'schemas checked against comprehension specs on all small databases incl. empty groups.',
    design_ref='DESIGN.md section 4, C02',
    note='SQLite NULL/aggregate semantics assumed; bounded.',
    technique='contracts on real functions executed natively over exhaustive small domains (bounded stand-in)'),
  'C20': dict(
    category='other',
    text='Every UDF of sqlite3_logica.py used by the SQLite dialect is under contract against its one-line '
         'definition, over all short histories and every arrival order (no ties).',
    design_ref='DESIGN.md section 4, C20',
    note='bounded; SQLite JSON1 assumed.',
    technique='contracts on real functions executed natively over exhaustive small domains (bounded stand-in)'),
  'C10': dict(
    category='other',
    text='Annotations.BuildFlagValues proved (defaults < @ResetFlagValue < user flags, value by value; diagnostic exactly for an '
         'undefined user flag). QL.StrLiteral is decided for all strings per dialect by the string-homomorphism decider (branch structure '
         'extracted from the current AST; per-character round trip through a table-driven lexer spec of each engine, '
         'all Unicode scalar values for the json branch): complete for its fragment. Function/Infix single-pass '
         'formatting, BuildFlagValues and UseFlagsAsParameters are contracts executed natively (bounded); the SQLite '
         'round trip of literals and flag values in six positions is a bounded end-to-end contract.',
    design_ref='DESIGN.md section 4, C10',
    note="Engines' lexical rules are assumptions (tables in vlib/strhom.py, from the manuals); U+000C excluded for "
         'Databricks; literals containing `${` are outside the domain (reserved flag syntax); json.dumps is per-character.',
    technique='contract-based verification: finite-class decision procedure for single-character replace chains (homomorphism) + bounded native contract execution'),
  'C14': dict(
    category='other',
    text='Proved from the current source of common/concertina_lib.py, for all plans and all runs (144 obligations): '
         'SortActions returns every action at most once with each prerequisite an iteration mate or earlier in the list; '
         'the scheduler part of __init__ establishes the queue invariant; Run keeps it at every step; RunOneAction runs '
         'exactly the head through the engine, only when its prerequisites are complete or iteration mates, completes a '
         'plain action once, increments / completes / re-queues an iterated one behind its iteration mates '
         '(UpdateStateForIterativeAction); a complete action never runs again. Also the edge-recording postcondition of '
         'TranslateTableAttachedToFile. Declared order and repetition counts of iterations, termination and the stop signal '
         'over whole runs are a bounded contract on Concertina.Run over every well-formed plan up to 4/5 actions.',
    design_ref='DESIGN.md section 9.8 and section 4, C14',
    note='assumed: engine.Run does not touch scheduler state; display code dropped; the tables built by UnderstandIterations '
         '(preconditions of SortActions / __init__ slice, incl. plan well-formedness for later members of an iteration); '
         'sorted(), list-comprehension filter and set operations by their stated contracts; ghost position map introduced by '
         'definition; termination of Run not proved.',
    technique='contract-based deductive verification (Python-AST VCs, z3/cvc5) + exhaustive small-plan contract execution (bounded)'),
  'C17': dict(
    category='other',
    text='AttachedDatabases proved (user attachments unchanged; in-memory logica_test added only for SQLite programs that ground something and attached none). '
         'TranslateTableAttachedToFile proved: one export statement per defined grounded predicate placed after the '
         'statements of the nested compilation, memoised second request emits nothing, table name is the @Ground name, '
         'every reader gets a dependency edge. Callees are assumed by contract (append-only statement list).',
    design_ref='DESIGN.md section 4, C17',
    note='SQLite DDL semantics; assumed contracts of PredicateSql / UseFlagsAsParameters / dialect methods; run-sequence behaviour bounded.',
    technique='contract-based deductive verification (Python-AST VCs, z3/cvc5)'),
  'C07': dict(
    category='other',
    text='Proved from the current source (38 obligations): the ordering loop of RuleStructure.SortUnnestings returns a '
         'permutation of the unnestings in which everything an unnesting depends on is bound by an earlier one, whatever '
         'order they were written in (only the circular-dependency diagnostic may be raised); NamesAllocator.AllocateVar '
         'never repeats a name. Relational bounded contract: every catalogue schema under permutations of rules / conjuncts / disjuncts and '
         'consistent renamings of variables and predicates must satisfy its original spec comprehension; aggregate UDFs '
         'under contract over every arrival order; run-time contracts on SortUnnestings, AllocateVar/AllocateTable, '
         'PredicateSql and DisambiguateCombineVariables (names unique across the compilation).',
    design_ref='DESIGN.md section 4, C07',
    note='bounded: finite catalogue x sampled databases; commutativity of SQL joins/UNION ALL assumed; the tables SortUnnestings '
         'starts from (dict comprehensions over the syntax tree) are parameters of the proved slice.',
    technique='contract-based deductive verification of the ordering loop (Python-AST VCs, z3/cvc5) + contracts on the real '
              'functions executed natively (bounded stand-in) + relational schema contracts'),
  'C08': dict(
    category='other',
    text='OkInjection / NoInject / ForceWith / With decision functions, CheckAnnotatedObjects (a plan annotation names an '
         'existing predicate or is rejected) and the edge-recording postcondition of TranslateTableAttachedToFile proved; RunInjections and TranslateTable '
         'under run-time contract; every catalogue schema x assignments of @NoInject/@With/@NoWith/@Ground to its concrete '
         'intermediates must satisfy the original spec; the SQL text must change with the annotation.',
    design_ref='DESIGN.md section 4, C08',
    note='bounded for the relational part; InjectStructure has no semantic contract.',
    technique='contract-based deductive verification of the decision functions + bounded relational schema contracts'),
  'C11': dict(
    category='other',
    text='DisjunctiveNormalForm proved structurally (PropositionToDNF case split, DisjunctsToDNF length = sum of the '
         'alternatives, ConjunctsToDNF = ConjunctionOfDnfs of the parts, ConjunctionOfDnfs length = product); multiplicity '
         'reading and position-wise clauses bounded; each documented sugar pair is a schema with one shared spec; '
         'InlinePredicateValues and HeadToSelect under run-time contract.',
    design_ref='DESIGN.md section 4, C11',
    note='bounded for the relational part; proposition trees abstracted by uninterpreted observers (is_conj, conj_of, ...).',
    technique='contract-based deductive verification (Python-AST VCs, z3/cvc5) + bounded schema contracts'),
  'C03': dict(
    category='other',
    text='Proved (100 obligations): recursive component analysis (slice of RecursiveAnalysis: covers strongly connected, '
         'maximal, pairwise disjoint, given a transitively closed args_of); the make-order loop of MakeAll (shared with C04); '
         'the ignition arithmetic inside Functors.UnfoldRecursions (slice) and recursion_library.GetRecursionFunctor '
         '(depth + 2 lines, generation i+1 from generation i, P = generation depth) are proved for all depths / cover '
         'sizes; the scheduler step lemma is shared with C14; ArgsOf / CallKey / make order under bounded contract; '
         'recursion schemas (self, mutual cuttable, non-cuttable triangle, Min= shortest path; depths 1, 2, 8 and 21-25 '
         'through the workflow executor) against the iterate-the-operator spec on all small graphs.',
    design_ref='DESIGN.md section 4, C03',
    note='bounded for the end-to-end part; functor application is substitution (C04) assumed; SQL semantics.',
    technique='contract-based deductive verification (Python-AST VCs on a function slice and a generator) + bounded schema contracts'),
  'C04': dict(
    category='other',
    text='Proved from the current source (37 obligations): the make-order loop of Functors.MakeAll (slice) calls Make for '
         'every pending @Make exactly once, an application whose applicant or bound value is itself a pending target only '
         'after that target, and leaves nothing pending on a normal exit (ghost log of the Make calls). Bounded: '
         'Functors.ArgsOf (= reachability closure), CallKey (equal keys iff equal relevant bindings) and the make order '
         '(CallFunctor only after applicant, its transitive arguments and bound values are made) as contracts executed on '
         'all small dependency graphs / all calls of the catalogue; functor schemas (chains, two arguments, functor of '
         'functor result, constants, equal and different bindings) against hand-substituted specs.',
    design_ref='DESIGN.md section 4, C04',
    note='the substitution itself (CallFunctor: cloning and renaming of rule trees) is bounded only -- tree-rewriting code is '
         'outside the VC generator\'s subset; assumed in the proof: ParseMakeInstruction returns its first argument as name '
         '(pure), Make records the call and keeps the keys of args_of, sorted() permutes.',
    technique='contract-based deductive verification of the make-order loop (Python-AST VCs, z3/cvc5) + contracts on the real '
              'functions executed natively over exhaustive small domains (bounded stand-in)'),
  'C09': dict(
    category='other',
    text='Dialect interface conformance decided exhaustively (every dialect method x every call site arity, every '
         'template shape); StrLiteral per dialect decided by the homomorphism decider (shared with C10); 22 typed programs '
         'x 8 engines: outcome is SQL or a diagnostic, and every statement passes the structure scanner (balanced under '
         'the dialect lexer, no comment token, no placeholder, WITH before use, alias.column scoping), calibrated on the '
         'executable SQLite catalogue.',
    design_ref='DESIGN.md section 4, C09',
    note='"well-formed" is the scanner\'s notion; engines other than SQLite cannot be executed.',
    technique='exhaustive finite checks of the dialect interface + bounded contracts on compile output (structure scanner as spec)'),
  'C12': dict(
    category='other',
    text='Proved (25 obligations): the assembly loop of ParseFile (slice): a normal exit means no predicate other than an '
         '@-annotation is defined by two files (main / import, import / import), otherwise the "overridden" ParsingException; '
         'the prefix loop of ParseFile (slice): the chosen prefix is not among the existing ones, the loop '
         'terminates, only ParsingException can be raised; RenamePredicate (every occurrence at every depth, count) and '
         'ParseImport (first root wins, parsed once, circular) under bounded contract; import graphs incl. shared base '
         'names against the hand-flattened program, both parsers in the thorough tier.',
    design_ref='DESIGN.md section 4, C12',
    note='str.split / capitalize abstracted as uninterpreted functions in the slice; end-to-end part bounded.',
    technique='contract-based deductive verification of a function slice + bounded contracts'),
  'C13': dict(
    category='other',
    text='Frame obligations decided statically from the current source: every write to module/class state, class table '
         'bound to an instance, order-sensitive use of a set-typed value and environment read in 7 compiler files must '
         'carry a recorded justification; relational bounded contract: catalogue + diamond / typed / functor programs give '
         'byte-identical output across hash seeds, compilation orders and repeated compilation.',
    design_ref='DESIGN.md section 4, C13',
    note='call graph resolved by name; the set-typing of the frame analysis is flow-insensitive and local to a function.',
    technique='frame conditions checked syntactically (modifies / determinism clauses) + bounded relational contract'),
  'C16': dict(
    category='other',
    text='Unify, UnifyListElement, UnifyRecordField and CloseRecord under contract against the spec function meet on type '
         'terms: all pairs of depth <= 1, sampled depth 2, three construction modes (references, direct sub-terms, alias '
         'chains); symmetry, idempotence, clash iff meet is bottom, order independence of clash-free triples.',
    design_ref='DESIGN.md section 4, C16',
    note='bounded (depth <= 2 instead of 3); cyclic reference graphs not covered.',
    technique='contracts on the real functions against a spec function, executed natively over small term domains (bounded stand-in)'),
  'C19': dict(
    category='other',
    text='Proved (20 obligations): CheckDistinctConsistency accepts only consistent programs; CheckAnnotatedObjects returns '
         'normally only if every annotated predicate exists. Exit-path contracts: ElliminateInternalVariables (normal return with full elimination => no internal variable), '
         'ExtractRuleStructure (aggregation => distinct) as run-time contracts; scanner rejection contract (Traverse / '
         'RemoveComments vs the mode automaton); a fixed catalogue of ~35 semantic and ~120 bracket/quote single-point '
         'corruptions must end in one of the four diagnostic types naming the offender, never SQL.',
    design_ref='DESIGN.md section 4, C19',
    note='the corruption catalogue is fixed; bounded.',
    technique='contracts on the real functions executed natively (bounded stand-in)'),
}
NA = {
  'C05': 'no contract within reach: needs a declarative typing judgement and a soundness argument linking inferred signatures to run-time values; the only available oracle would be a second type checker (different technique). Unification core is decided under C16.',
  'C06': 'one side is 2.7k lines of C++ and no C/C++ contract verifier is installed; a bounded run of one parser against the other is differential testing, a different technique.',
}

def main():
  checks = []
  for pid in ALL:
    if pid in CLAIMED:
      c = CLAIMED[pid]
      checks.append({
        'property_id': pid,
        'quick_cmd': './check run %s --tier quick' % pid,
        'thorough_cmd': './check run %s --tier thorough' % pid,
        'evidence_file': 'evidence/%s.json' % pid,
        'replay_cmd_template': './check replay {path}',
        'engine': 'pyvc',
        'level_claimed': {'category': c['category'], 'text': c['text'], 'design_ref': c['design_ref']},
        'level_note': c['note'],
        'technique': c['technique'],
      })
  na = []
  for pid in ALL:
    if pid not in CLAIMED:
      na.append({'property_id': pid, 'reason': NA.get(pid, 'planned in DESIGN.md, check not built yet')})
  m = {
    'version': 1,
    'setup_cmd': 'sh ./setup.sh',
    'hooks': {'guard': 'LOGICA_VERIF', 'enable': 'none needed: contracts are sidecars under /verif/contracts, /repo is read, not instrumented',
              'baseline_off_cmd': 'cd /repo && /venv/bin/python -m pytest -ra -q -p no:cacheprovider --timeout=900 --continue-on-collection-errors',
              'source_commits': [], 'add_only': True},
    'engines': [{'name': 'pyvc', 'path': 'vlib/', 'serves_properties': sorted(CLAIMED),
                 'kind_free_text': 'Python-AST symbolic executor generating verification conditions from sidecar contracts on the real /repo functions; z3 (API) and cvc5 (CLI) back ends; native contract runtime as bounded back end and replay'}],
    'checks': checks,
    'not_applicable': na,
    'notes': 'See DESIGN.md. known_findings.jsonl lists genuine defects (fixed / known).',
  }
  json.dump(m, open(os.path.join(HERE, 'MANIFEST.json'), 'w'), indent=1)
  try:
    import jsonschema
    jsonschema.validate(m, json.load(open('/root/.vp/MANIFEST.schema.json')))
    print('MANIFEST.json valid:', len(checks), 'checks,', len(na), 'not applicable')
  except ImportError:
    print('written (jsonschema unavailable)')

if __name__ == '__main__':
  main()
