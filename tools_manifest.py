#!/usr/bin/env python3
"""Regenerates MANIFEST.json from the table below (keeps it valid at all times)."""
import json, os
HERE = os.path.dirname(os.path.abspath(__file__))
ALL = ['C%02d' % i for i in range(1, 21)]

CLAIMED = {
  'C18': dict(
    category='proof',
    text='Clause construction and non-inlining are postconditions on the real LimitOf / LimitClause / '
         'OrderBy / OrderByClause / OkInjection, proved for all annotation maps and every K from VCs '
         'regenerated from /repo on each run; the same contracts run natively as a bounded cross-check.',
    design_ref='DESIGN.md section 4, C18',
    note='Assumes: FieldValuesAsList (deepcopy + del) by contract, @OrderBy keys are strings, '
         'str.join / % formatting semantics, SQL ORDER BY/LIMIT semantics of the engine; VC generator trusted.',
    technique='contract-based deductive verification: Python-AST VC generation + z3/cvc5; bounded native contract execution as cross-check'),
}
NA = {
  'C05': 'no contract within reach: needs a declarative typing judgement and a soundness argument linking inferred signatures to run-time values; the only available oracle would be a second type checker (different technique). Unification core is decided under C16.',
  'C06': 'one side is 2.7k lines of C++ and no C/C++ contract verifier is installed; a bounded run of one parser against the other is differential testing, a different technique.',
}

def main():
  checks = []
  for pid in ALL:
    if pid in CLAIMED:
      c = CLAIMED[pid]
      checks.append({
        'property_id': pid,
        'quick_cmd': './check run %s --tier quick' % pid,
        'thorough_cmd': './check run %s --tier thorough' % pid,
        'evidence_file': 'evidence/%s.json' % pid,
        'replay_cmd_template': './check replay {path}',
        'engine': 'pyvc',
        'level_claimed': {'category': c['category'], 'text': c['text'], 'design_ref': c['design_ref']},
        'level_note': c['note'],
        'technique': c['technique'],
      })
  na = []
  for pid in ALL:
    if pid not in CLAIMED:
      na.append({'property_id': pid, 'reason': NA.get(pid, 'planned in DESIGN.md, check not built yet')})
  m = {
    'version': 1,
    'setup_cmd': 'sh ./setup.sh',
    'hooks': {'guard': 'LOGICA_VERIF', 'enable': 'none needed: contracts are sidecars under /verif/contracts, /repo is read, not instrumented',
              'baseline_off_cmd': 'cd /repo && /venv/bin/python -m pytest -ra -q -p no:cacheprovider --timeout=900 --continue-on-collection-errors',
              'source_commits': [], 'add_only': True},
    'engines': [{'name': 'pyvc', 'path': 'vlib/', 'serves_properties': sorted(CLAIMED),
                 'kind_free_text': 'Python-AST symbolic executor generating verification conditions from sidecar contracts on the real /repo functions; z3 (API) and cvc5 (CLI) back ends; native contract runtime as bounded back end and replay'}],
    'checks': checks,
    'not_applicable': na,
    'notes': 'See DESIGN.md. known_findings.jsonl lists genuine defects (fixed / known).',
  }
  json.dump(m, open(os.path.join(HERE, 'MANIFEST.json'), 'w'), indent=1)
  try:
    import jsonschema
    jsonschema.validate(m, json.load(open('/root/.vp/MANIFEST.schema.json')))
    print('MANIFEST.json valid:', len(checks), 'checks,', len(na), 'not applicable')
  except ImportError:
    print('written (jsonschema unavailable)')

if __name__ == '__main__':
  main()
