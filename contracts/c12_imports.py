"""C12 — imports (parser_py/parse.py): prefix uniqueness (proved on the slice of ParseFile),
RenamePredicate and ParseImport as bounded contracts."""
import copy
import itertools
import os
import shutil
import tempfile

from vlib.units import unit

F = 'parser_py/parse.py'


# ---------------------------------------------------------------- RenamePredicate
def trees():
  leaf = lambda n: {'predicate_name': n}
  call = lambda n, *args: {'call': {'predicate_name': n, 'record': {'field_value': [
      {'field': i, 'value': {'expression': a}} for i, a in enumerate(args)]}}}
  rule = lambda h, *body: {'head': {'predicate_name': h, 'record': {'field_value': []}},
                           'body': {'conjunction': {'conjunct': [{'predicate': leaf(b)} if isinstance(b, str) else b
                                                                  for b in body]}}, 'full_text': h}
  yield [rule('P', 'Q')]
  yield [rule('P', 'P', 'Q'), rule('Q', 'R')]
  # the same predicate nested inside its own call:  Quad(x) = Twice(Twice(x))
  yield [{'head': {'predicate_name': 'Quad', 'record': {'field_value': [
      {'field': 'logica_value', 'value': {'expression': call('Twice', call('Twice', {'variable': {'var_name': 'x'}}))}}]}},
      'full_text': 'Quad'}]
  yield [rule('F', {'predicate': {'predicate_name': 'F', 'record': {'field_value': [
      {'field': 0, 'value': {'expression': call('F', {'literal': {'the_predicate': leaf('F')}})}}]}}})]
  yield [rule('@Make', 'F'), {'head': {'predicate_name': 'N', 'record': {'field_value': [
      {'field': 'P', 'value': {'expression': {'literal': {'the_predicate': leaf('P')}}}}]}}, 'full_text': 'N'}]


def count_names(x, name):
  n = 0
  if isinstance(x, dict):
    if x.get('predicate_name') == name:
      n += 1
    if x.get('field') == name:
      n += 1
    for v in x.values():
      n += count_names(v, name)
  elif isinstance(x, list):
    for v in x:
      n += count_names(v, name)
  return n


def renamed(x, old, new):
  if isinstance(x, dict):
    return {k: (new if k in ('predicate_name', 'field') and v == old else renamed(v, old, new)) for k, v in x.items()}
  if isinstance(x, list):
    return [renamed(v, old, new) for v in x]
  return x


def gen_rename(tier, mod):
  for t in trees():
    for old in ('P', 'Q', 'F', 'Twice', 'Zzz'):
      tt = copy.deepcopy(t)
      yield {'args': [tt, old, 'Pre_' + old],
             'env': {'before': copy.deepcopy(t), 'count_names': count_names, 'renamed': renamed},
             'show': {'tree_heads': [r['head']['predicate_name'] for r in t], 'old': old}}


# ---------------------------------------------------------------- ParseImport
def gen_import(tier, mod):
  base = tempfile.mkdtemp(prefix='verif_c12_')
  try:
    r1, r2 = os.path.join(base, 'r1'), os.path.join(base, 'r2')
    for r, v in ((r1, 1), (r2, 2)):
      os.makedirs(os.path.join(r, 'lib'))
      open(os.path.join(r, 'lib', 'both.l'), 'w').write('V() = %d;\n' % v)
    open(os.path.join(r1, 'lib', 'only1.l'), 'w').write('V() = 11;\n')
    open(os.path.join(r2, 'lib', 'only2.l'), 'w').write('V() = 22;\n')
    cases = [('lib.both', [r1, r2], 1), ('lib.both', [r2, r1], 2), ('lib.only2', [r1, r2], 22),
             ('lib.only1', [r1, r2], 11), ('lib.both', r1, 1), ('lib.both', r2, 2), ('lib.missing', [r1, r2], None),
             ('lib.missing', r1, None)]
    for name, root, want in cases:
      yield {'args': [name, {}, ['main'], root], 'env': {'want': want, 'value_of': value_of},
             'show': {'import': name, 'roots': root if isinstance(root, str) else [os.path.basename(x) for x in root]}}
    # second request of a parsed file returns None; a file in progress is a circular import
    yield {'args': ['lib.both', {'lib.both': {'rule': []}}, ['main'], r1], 'env': {'want': 'cached', 'value_of': value_of},
           'show': 'already parsed'}
    yield {'args': ['lib.both', {'lib.both': None}, ['main'], r1], 'env': {'want': 'circular', 'value_of': value_of},
           'show': 'in progress'}
  finally:
    shutil.rmtree(base, ignore_errors=True)


def value_of(parsed):
  if parsed is None:
    return 'cached'
  for r in parsed['rule']:
    for fv in r['head']['record']['field_value']:
      if fv['field'] == 'logica_value':
        return int(fv['value']['expression']['literal']['the_number']['number'])


UNITS = [
  unit(F, 'ParseFile', name='ParseFile[prefix]', props=['C12'],
       slice=('parts = this_file_name.split', 'while this_file_prefix in existing_prefixes'),
       params=['this_file_name', 'existing_prefixes'],
       types={'this_file_name': 'str', 'existing_prefixes': 'set[str]'}, returns='str',
       result_var='this_file_prefix',
       abstract_exprs={"this_file_name.split('.')": ('parts_of', ['this_file_name'], 'list[str]'),
                       "parts[idx].capitalize()": ('capitalized', ['parts', 'idx'], 'str')},
       requires=["len(this_file_name.split('.')) >= 1"],
       ensures=[
           # the prefix chosen for a file is not the prefix of any file parsed before
           "result not in existing_prefixes"],
       # running out of path components is reported as a parsing error, never as an internal error
       may_raise={'ParsingException': "True"},
       loops={0: {'inv': ["0 <= idx and idx < len(parts)"], 'dec': "idx"}}),

  unit(F, 'RenamePredicate', props=['C12'], deductive=False, params=['e', 'old_name', 'new_name'],
       # every occurrence (predicate_name or field) of the old name is renamed, at every nesting depth,
       # nothing else changes, and the count returned is the number of changes
       ensures=["e == renamed(before, old_name, new_name)",
                "result == count_names(before, old_name)"], native=gen_rename),

  unit(F, 'ParseImport', props=['C12'], deductive=False,
       params=['file_import_str', 'parsed_imports', 'import_chain', 'import_root'],
       # lookup tries the roots in order and takes the first hit; a file is parsed at most once
       ensures=["value_of(result) == want"],
       raises={'ParsingException': "want is None or want == 'circular'"}, native=gen_import),
]


# ---------------------------------------------------------------------------------------------------------------
# Assembly of the main file (slice of ParseFile: from `defined_predicates = DefinedPredicates(rules)` to the end of the
# loop over the parsed imports): a normal exit means that no predicate (other than an @-annotation) is defined by two
# of the files -- neither by the main file and an import, nor by two imports: same-named predicates of different
# files never collide silently; the only other way out is the "overridden" ParsingException.
ASM_INV = [
    "all(all(p in defined_predicates for p in defs_of(x)) for x in _visited0)",
    "all(p in defined_predicates for p in defs_main())",
    "all(p in defs_main() or any(p in defs_of(x) for x in _visited0) for p in defined_predicates)",
    "all(all(implies(x != y, all(implies(p in defs_of(y), p[0] == '@') for p in defs_of(x))) for y in _visited0) "
    "for x in _visited0)",
    "all(all(implies(p in defs_main(), p[0] == '@') for p in defs_of(x)) for x in _visited0)",
]

def gen_assembly(tier, mod):
  """Main file and up to three imported files, each defining any subset of {P, Q, @Ground} (quick: two files)."""
  import itertools
  names = ['P', 'Q', '@Ground']
  subsets = [[n for k, n in enumerate(names) if m >> k & 1] for m in range(8)]
  mk_rules = lambda ns: [{'head': {'predicate_name': n}, 'full_text': n} for n in ns]
  for nfiles in range(0, 3 if tier == 'quick' else 4):
    for main in subsets:
      for combo in itertools.product(subsets, repeat=nfiles):
        imports = {'f%d' % k: {'rule': mk_rules(c), 'file_name': 'f%d' % k} for k, c in enumerate(combo)}
        yield {'args': [mk_rules(main), imports], 'self': None,
               'env': {'defs_main': (lambda main=main: set(main)),
                       'defs_of': (lambda i: {r['head']['predicate_name'] for r in i['rule']})},
               'show': {'main': main, 'imports': [list(c) for c in combo]}}


UNITS += [
  unit(F, 'ParseFile', name='ParseFile[assembly]', props=['C12'],
       slice=('defined_predicates = DefinedPredicates(rules)', 'for i in parsed_imports.values()'),
       params=['rules', 'parsed_imports'], types={'rules': 'list[RuleT]', 'parsed_imports': 'dict[str,Imp]'},
       locals={'defined_predicates': 'set[str]', 'main_defined_predicates': 'set[str]', 'new_predicates': 'set[str]'},
       fields={}, modifies=[], modifies_args=['rules'], set_axioms=True,
       exceptions=['ParsingException'], may_raise={'ParsingException': 'True'},
       abstract_exprs={"DefinedPredicates(rules)": ('defs_main', [], 'set[str]'),
                       "DefinedPredicates(i['rule'])": ('defs_of', ['i'], 'set[str]'),
                       "i['rule']": ('rules_of', ['i'], 'list[RuleT]')},
       ufs={'defs_main': ([], 'set[str]'), 'defs_of': (['Imp'], 'set[str]'), 'rules_of': (['Imp'], 'list[RuleT]')},
       requires=["all(len(p) > 0 for p in defs_main())",
                 "all(all(len(p) > 0 for p in defs_of(x)) for x in parsed_imports.values())"],
       native=lambda tier, mod: gen_assembly(tier, mod),
       ensures=[
           "all(all(implies(x != y, all(implies(p in defs_of(y), p[0] == '@') for p in defs_of(x))) "
           "for y in parsed_imports.values()) for x in parsed_imports.values())",
           "all(all(implies(p in defs_main(), p[0] == '@') for p in defs_of(x)) for x in parsed_imports.values())"],
       loops={0: {'inv': ASM_INV}}),
]
