"""C04 — functor application (compiler/functors.py): bounded contracts on the argument-closure,
the call cache key, and the make order."""
import itertools
from vlib.units import unit
from vlib import mk

FU = 'compiler/functors.py'


def reach(direct, p):
  seen, todo = set(), list(direct.get(p, ()))
  while todo:
    e = todo.pop()
    if e not in seen:
      seen.add(e)
      todo.extend(direct.get(e, ()))
  return seen


def digraphs(n):
  names = ['P', 'Q', 'R', 'S'][:n]
  ext = ['T']                      # a table (no rules)
  pairs = [(a, b) for a in names for b in names + ext]
  for mask in range(1 << len(pairs)):
    if n == 4 and bin(mask).count('1') > 5:
      continue
    d = {a: set() for a in names}
    for k, (a, b) in enumerate(pairs):
      if mask >> k & 1:
        d[a].add(b)
    yield d


def mk_functors(mod, direct):
  f = mk.functors(mod)
  f.direct_args_of = {k: set(v) for k, v in direct.items()}
  f.args_of = {}
  f.predicates = set(direct)
  for p in sorted(f.predicates):          # as Functors.__init__ does (pure-Python path)
    f.ArgsOf(p)
  return f


def gen_args(tier, mod):
  for n in (1, 2, 3) if tier == 'quick' else (1, 2, 3, 4):
    for d in digraphs(n):
      f = mk_functors(mod, d)
      for p in sorted(d):
        yield {'args': [p], 'self': f, 'env': {'closure': reach(d, p)}, 'show': {'direct_args_of': {k: sorted(v) for k, v in d.items()}, 'functor': p}}


def gen_callkey(tier, mod):
  # F -> M -> K -> A ; F -> B ; G -> A
  direct = {'F': {'M', 'B'}, 'M': {'K'}, 'K': {'A'}, 'G': {'A'}}
  f = mk_functors(mod, direct)
  vals = ['X', 'Y']
  maps = [dict(zip(ks, vs)) for r in range(0, 3) for ks in itertools.combinations(['A', 'B', 'Z'], r)
          for vs in itertools.product(vals, repeat=r)]
  for fn in ('F', 'M', 'K', 'G'):
    for m1 in maps:
      for m2 in maps:
        rel = reach(direct, fn)
        same = {k: v for k, v in m1.items() if k in rel} == {k: v for k, v in m2.items() if k in rel}
        yield {'args': [fn, m1], 'self': f, 'env': {'other': f.CallKey(fn, m2), 'same': same},
               'show': {'functor': fn, 'args_map': m1, 'other_args_map': m2}}


UNITS = [
  unit(FU, 'Functors.ArgsOf', props=['C04', 'C03'], deductive=False, params=['functor'],
       # transitive arguments of a predicate = everything reachable through direct arguments
       ensures=["set(result) == closure"], native=gen_args),
  unit(FU, 'Functors.CallKey', props=['C04', 'C03'], deductive=False, params=['functor', 'args_map'],
       # the cache key identifies the functor and exactly the bindings of the arguments it depends on
       # (directly or through other predicates): equal keys <=> equal relevant bindings
       ensures=["(result == other) == same"], native=gen_callkey),
]


# ---------------------------------------------------------------------------------------------------------------
# The make-order loop of Functors.MakeAll (a slice: from `needs_building = ...` to the end of the while loop), proved:
# every pending @Make is executed exactly when it is called through self.Make; a functor application whose applicant,
# or one of whose bound values, is itself a pending @Make target is executed only after that target (ghost log of the
# Make calls); nothing is made twice; on a normal exit nothing is pending.  The third condition of the guard
# (`self.args_of[applicant] & needs_building`) refers to a table that Make itself rewrites, so it is stated at the call
# (obligation call-pre of the assumed contract of Make is not expressible over a caller's local): it is covered by the
# run-time monitor of m_pipeline.py and by the schemas, not by this proof.
INSTR_FIELDS = {'self.args_of': 'dict[str,set[str]]', 'self.g_made': 'list[tuple[str,Instr]]'}
APP = "pure_parse(e[0], e[1])"
MK_INV = [
    # what has been made is no longer pending, and was a target
    "all(self.g_made[k][0] not in needs_building and self.g_made[k][0] in targets() for k in range(len(self.g_made)))",
    # a target is pending or made
    "all(t in needs_building or any(self.g_made[j][0] == t for j in range(len(self.g_made))) for t in targets())",
    "all(t in targets() for t in needs_building)",
    # nothing is made twice
    "all(all(implies(i != j, self.g_made[i][0] != self.g_made[j][0]) for j in range(len(self.g_made))) "
    "for i in range(len(self.g_made)))",
    # order: the applicant of a made application, if it is a target, was made before it; likewise every bound value
    "all(implies(applicant_of(self.g_made[k][0], self.g_made[k][1]) in targets(), "
    "any(self.g_made[j][0] == applicant_of(self.g_made[k][0], self.g_made[k][1]) for j in range(k))) "
    "for k in range(len(self.g_made)))",
    "all(all(implies(v in targets(), any(self.g_made[j][0] == v for j in range(k))) "
    "for v in bound_values(self.g_made[k][0], self.g_made[k][1])) for k in range(len(self.g_made)))",
]

KEYS_INV = ("all(applicant_of(predicate_to_instruction[k][0], predicate_to_instruction[k][1]) in self.args_of "
            "for k in range(len(predicate_to_instruction)))")

UNITS += [
  unit(FU, 'Functors.ParseMakeInstruction', external=True, pure=True, params=['predicate', 'instruction'],
       types={'predicate': 'str', 'instruction': 'Instr'}, returns='tuple[str,str,dict[str,str]]', fields={},
       requires=[], ensures=["result[0] == predicate"]),
  unit(FU, 'Functors.Make', external=True, params=['predicate', 'instruction'],
       types={'predicate': 'str', 'instruction': 'Instr'}, fields=INSTR_FIELDS,
       modifies=['self.args_of', 'self.g_made'], requires=[],
       # ghost: the call is recorded; Make rewrites args_of (UpdateStructure)
       # (position by position: the form the solvers use best)
       ensures=["len(self.g_made) == len(old(self.g_made)) + 1",
                "all(self.g_made[k] == old(self.g_made)[k] for k in range(len(old(self.g_made))))",
                "self.g_made[len(old(self.g_made))][0] == predicate",
                "self.g_made[len(old(self.g_made))][1] == instruction",
                "all(a in self.args_of for a in old(self.args_of))"]),
  unit(FU, 'Functors.MakeAll', name='Functors.MakeAll[order]', props=['C04', 'C03'],
       slice=('needs_building = set(', 'while needs_building'),
       params=['predicate_to_instruction'], types={'predicate_to_instruction': 'list[tuple[str,Instr]]'},
       fields=INSTR_FIELDS, modifies=['self.args_of', 'self.g_made'], cls='Functors',
       locals={'needs_building': 'set[str]', 'something_built': 'bool'},
       may_raise={'FunctorError': 'True'}, exceptions=['FunctorError'],
       abstract_exprs={"set((self.ParseMakeInstruction(p, i)[0] for p, i in predicate_to_instruction))":
                       ('targets', [], 'set[str]')},
       ufs={'targets': ([], 'set[str]')},
       spec_calls={'pure_parse': 'Functors.ParseMakeInstruction'},
       spec_funcs={'applicant_of': (['p', 'i'], "pure_parse(p, i)[1]"),
                   'bound_values': (['p', 'i'], "pure_parse(p, i)[2].values()")},
       # the assumed contract of the pure callee, as an axiom: the name returned is the first argument
       axioms=["all(all(pure_parse(p, i)[0] == p for i in Sort('Instr')) for p in Sort('str'))"],
       requires=["len(self.g_made) == 0",
                 # every applicant has an entry in args_of (Functors.__init__ / UpdateStructure keep one per predicate)
                 "all(applicant_of(predicate_to_instruction[k][0], predicate_to_instruction[k][1]) in self.args_of "
                 "for k in range(len(predicate_to_instruction)))",
                 # the targets are the first components of the instruction list (ParseMakeInstruction returns its first
                 # argument as name)
                 "all(predicate_to_instruction[k][0] in targets() for k in range(len(predicate_to_instruction)))",
                 "all(any(predicate_to_instruction[k][0] == t for k in range(len(predicate_to_instruction))) "
                 "for t in targets())"],
       ensures=MK_INV[3:] + [
           # on a normal exit nothing is pending: every target was made
           "all(any(self.g_made[j][0] == t for j in range(len(self.g_made))) for t in targets())"],
       loops={0: {'inv': MK_INV + [KEYS_INV]},
              1: {'inv': MK_INV + [KEYS_INV],
                  'focus': {0: {'inv': [(1, 0)], 'req': [2]}, 3: {'inv': [(1, 0), (1, 3)], 'req': []},
                            4: {'inv': [(1, 1), (1, 4)], 'req': []}, 5: {'inv': [(1, 1), (1, 5)], 'req': []}}}},
       native=lambda tier, mod: gen_makeall(tier, mod)),
]


def gen_makeall(tier, mod):
  """The make-order slice run natively on real Functors objects built from the functor programs of the catalogue
  (and a few with unresolvable orders): self.Make is wrapped to record the ghost log and then runs the real Make."""
  from vlib import lgen, rt
  parse = rt.repo_module('parser_py.parse')
  universe = rt.repo_module('compiler.universe')
  extra = ['@Engine("sqlite");\nF(x) :- A(x);\nG := H(A: B);\nH := G(A: C);\nP(x) :- G(x);',       # cyclic order
           '@Engine("sqlite");\nF(x) :- A(x), B(x);\nG3 := F(A: G1);\nG1 := F(B: C);\nG2 := G3(B: G1);\nP(x) :- G2(x);',
           '@Engine("sqlite");\nLim() = 0;\nF(x) :- A(x), x > Lim();\nG := F(Lim: 3);\nH := G(A: B);']
  texts = [s['text'] for s in lgen.ALL if ':=' in s['text'] and 'Recursive' not in s['text']] + extra
  for text in texts:
    try:
      rules = parse.ParseFile(text)['rule']
      ann = universe.Annotations(rules, {})
      pti = list(ann.annotations['@Make'].items())
      f = mod.Functors(rules)
    except Exception:
      continue
    f.g_made = []
    real_make = f.Make

    def make(p, i, f=f, real_make=real_make):
      f.g_made.append((p, i))
      return real_make(p, i)
    f.Make = make
    names = {p for p, i in pti}
    yield {'args': [pti], 'self': f, 'nocopy': True,
           'env': {'targets': (lambda names=names: names), 'pure_parse': (lambda p, i, f=f: f.ParseMakeInstruction(p, i))},
           'show': {'program': text}}
