"""C04 — functor application (compiler/functors.py): bounded contracts on the argument-closure,
the call cache key, and the make order."""
import itertools
from vlib.units import unit
from vlib import mk

FU = 'compiler/functors.py'


def reach(direct, p):
  seen, todo = set(), list(direct.get(p, ()))
  while todo:
    e = todo.pop()
    if e not in seen:
      seen.add(e)
      todo.extend(direct.get(e, ()))
  return seen


def digraphs(n):
  names = ['P', 'Q', 'R', 'S'][:n]
  ext = ['T']                      # a table (no rules)
  pairs = [(a, b) for a in names for b in names + ext]
  for mask in range(1 << len(pairs)):
    if n == 4 and bin(mask).count('1') > 5:
      continue
    d = {a: set() for a in names}
    for k, (a, b) in enumerate(pairs):
      if mask >> k & 1:
        d[a].add(b)
    yield d


def mk_functors(mod, direct):
  f = mk.functors(mod)
  f.direct_args_of = {k: set(v) for k, v in direct.items()}
  f.args_of = {}
  f.predicates = set(direct)
  for p in sorted(f.predicates):          # as Functors.__init__ does (pure-Python path)
    f.ArgsOf(p)
  return f


def gen_args(tier, mod):
  for n in (1, 2, 3) if tier == 'quick' else (1, 2, 3, 4):
    for d in digraphs(n):
      f = mk_functors(mod, d)
      for p in sorted(d):
        yield {'args': [p], 'self': f, 'env': {'closure': reach(d, p)}, 'show': {'direct_args_of': {k: sorted(v) for k, v in d.items()}, 'functor': p}}


def gen_callkey(tier, mod):
  # F -> M -> K -> A ; F -> B ; G -> A
  direct = {'F': {'M', 'B'}, 'M': {'K'}, 'K': {'A'}, 'G': {'A'}}
  f = mk_functors(mod, direct)
  vals = ['X', 'Y']
  maps = [dict(zip(ks, vs)) for r in range(0, 3) for ks in itertools.combinations(['A', 'B', 'Z'], r)
          for vs in itertools.product(vals, repeat=r)]
  for fn in ('F', 'M', 'K', 'G'):
    for m1 in maps:
      for m2 in maps:
        rel = reach(direct, fn)
        same = {k: v for k, v in m1.items() if k in rel} == {k: v for k, v in m2.items() if k in rel}
        yield {'args': [fn, m1], 'self': f, 'env': {'other': f.CallKey(fn, m2), 'same': same},
               'show': {'functor': fn, 'args_map': m1, 'other_args_map': m2}}


UNITS = [
  unit(FU, 'Functors.ArgsOf', props=['C04', 'C03'], deductive=False, params=['functor'],
       # transitive arguments of a predicate = everything reachable through direct arguments
       ensures=["set(result) == closure"], native=gen_args),
  unit(FU, 'Functors.CallKey', props=['C04', 'C03'], deductive=False, params=['functor', 'args_map'],
       # the cache key identifies the functor and exactly the bindings of the arguments it depends on
       # (directly or through other predicates): equal keys <=> equal relevant bindings
       ensures=["(result == other) == same"], native=gen_callkey),
]
