"""C19 / C08 / C07 / C01 — small decision and exit-path units proved deductively."""
from vlib.units import unit
from vlib import mk
import copy

_PROG = []


def _prog(mod):
  if not _PROG:
    _PROG.append(mk.program(mod))
  return _PROG[0]


U = 'compiler/universe.py'
RT = 'compiler/rule_translate.py'
ANN = {'self.annotations': 'dict[str,dict[str,dict[str,val]]]'}

def gen_cdc(tier, mod):
  import itertools
  for n in range(0, 5):
    for preds in itertools.product('PQ', repeat=n):
      for flags in itertools.product((False, True), repeat=n):
        p = copy.copy(_prog(mod))
        p.rules = [(a, dict({'full_text': a}, **({'distinct_denoted': True} if f else {}))) for a, f in zip(preds, flags)]
        yield {'args': [], 'self': p, 'show': list(zip(preds, flags))}


UNITS = [
  unit(U, 'LogicaProgram.CheckDistinctConsistency', props=['C19'], params=[], deductive=False,
       native=lambda tier, mod: gen_cdc(tier, mod),
       native_env={'dd': lambda r: 'distinct_denoted' in r},
       # (the VCs of this unit -- invariants over the first rule of each predicate -- stay `unknown` in z3/cvc5
       #  at 60 s; the contract is executed natively on all rule lists with <= 4 rules instead)
       fields={'self.rules': 'list[tuple[str,Rule]]'}, locals={'is_distinct': 'dict[str,bool]'},
       abstract_exprs={"'distinct_denoted' in r": ('dd', ['r'], 'bool')},
       ufs={'dd': (['Rule'], 'bool'), 'first': (['str'], 'int')},
       axioms=[
           # first(p): index of the first rule of predicate p
           "all(implies(0 <= k and k < len(self.rules), 0 <= first(self.rules[k][0]) and "
           "first(self.rules[k][0]) <= k and self.rules[first(self.rules[k][0])][0] == self.rules[k][0]) "
           "for k in range(len(self.rules)))"],
       # returns normally iff all rules of every predicate agree on `distinct`
       ensures=["all(all(implies(self.rules[i][0] == self.rules[j][0], dd(self.rules[i][1]) == dd(self.rules[j][1])) "
                "for j in range(len(self.rules))) for i in range(len(self.rules)))"],
       may_raise={'RuleCompileException':
                  "not all(all(implies(self.rules[i][0] == self.rules[j][0], dd(self.rules[i][1]) == dd(self.rules[j][1])) "
                  "for j in range(len(self.rules))) for i in range(len(self.rules)))"},
       loops={0: {'inv': [
           # every rule seen so far agrees with the first rule of its predicate, whose flag is the recorded one
           "all(self.rules[k][0] in is_distinct and "
           "is_distinct[self.rules[k][0]] == dd(self.rules[first(self.rules[k][0])][1]) and "
           "dd(self.rules[k][1]) == dd(self.rules[first(self.rules[k][0])][1]) for k in range(_i0))",
           # predicates whose first rule is still ahead are not recorded yet
           "all(implies(first(self.rules[k][0]) >= _i0, self.rules[k][0] not in is_distinct) "
           "for k in range(len(self.rules)))"]}}),

  # the direction C19 needs, proved for every rule list: if the function returns normally, all rules of
  # every predicate agree on `distinct` (so an inconsistent program is always rejected).  Invariant: every
  # rule seen so far carries the flag recorded for its predicate.
  unit(U, 'LogicaProgram.CheckDistinctConsistency', name='LogicaProgram.CheckDistinctConsistency[accepts-only-consistent]',
       props=['C19'], params=[],
       fields={'self.rules': 'list[tuple[str,Rule]]'}, locals={'is_distinct': 'dict[str,bool]'},
       abstract_exprs={"'distinct_denoted' in r": ('dd', ['r'], 'bool'), "r['full_text']": ('ft', ['r'], 'str')},
       ufs={'dd': (['Rule'], 'bool'), 'ft': (['Rule'], 'str')},
       calls={'color.Format': 'color.Format2!ext'},
       ensures=["all(all(implies(self.rules[i][0] == self.rules[j][0], dd(self.rules[i][1]) == dd(self.rules[j][1])) "
                "for j in range(len(self.rules))) for i in range(len(self.rules)))"],
       may_raise={'RuleCompileException': "True"},
       loops={0: {'inv': [
           "all(self.rules[k][0] in is_distinct and is_distinct[self.rules[k][0]] == dd(self.rules[k][1]) "
           "for k in range(_i0))"]}}),
  unit('common/color.py', 'color.Format2!ext', external=True, pure=True, params=['s', 'd'],
       types={'s': 'str', 'd': 'dict[str,str]'}, fields={}, returns='str'),
  unit(U, 'Annotations.With', props=['C08'], params=['predicate_name'], types={'predicate_name': 'str'},
       fields=ANN, returns='bool', retype={},
       calls={'color.Format': 'color.Format!ext'},
       requires=["'@With' in self.annotations", "'@NoWith' in self.annotations", "'@Ground' in self.annotations"],
       ensures=[
           # WITH iff @With, or neither @NoWith nor @Ground
           "result == (self.ForceWith(predicate_name) or "
           "(not self.ForceNoWith(predicate_name) and self.Ground(predicate_name) is None))"],
       raises={'RuleCompileException': "self.ForceWith(predicate_name) and self.ForceNoWith(predicate_name)"}),
  unit('common/color.py', 'color.Format!ext', external=True, pure=True, params=['s'], types={'s': 'str'}, fields={},
       returns='str'),

  unit(RT, 'LogicaFieldToSqlField', props=['C01', 'C11'], pure=True, params=['logica_field'],
       types={'logica_field': 'val'}, returns='val',
       requires=["not isinstance(logica_field, bool)"],
       # positional argument k is column colk; a named argument is its own column
       ensures=["implies(isinstance(logica_field, int), result == 'col' + str(intval(logica_field)))",
                "implies(not isinstance(logica_field, int), result == logica_field)"]),

  unit(RT, 'NamesAllocator.AllocateVar', props=['C07', 'C09'], params=['hint'], types={'hint': 'opt[str]'},
       fields={'self.aux_var_num': 'int'}, modifies=['self.aux_var_num'], returns='str',
       # x_k with k strictly increasing: a name is never handed out twice
       ensures=["result == 'x_' + str(old(self.aux_var_num))", "self.aux_var_num == old(self.aux_var_num) + 1"]),
]


# ---------------------------------------------------------------------------------------------------------------
# Annotations.CheckAnnotatedObjects: a normal return means every predicate named by a plan / shape annotation exists
# (has a rule, or is grounded, or is made); the only way out otherwise is the compiler error raised by
# RaiseCompilerError (assumed contract: it always raises).
CHECKED = "{'@Limit', '@OrderBy', '@NoInject', '@CompileAsTvf', '@With', '@NoWith', '@CompileAsUdf'}"
ALLP = "(heads() | set(self.annotations['@Ground']) | set(self.annotations['@Make']))"


def gen_cao(tier, mod):
  import itertools
  kinds = ['@Limit', '@OrderBy', '@NoInject', '@CompileAsTvf', '@With', '@NoWith', '@CompileAsUdf', '@Ground', '@Make']
  names = ['P', 'Q', 'Nope']
  for heads in (['P'], ['P', 'Q'], []):
    rules = [{'head': {'predicate_name': h}, 'full_text': h} for h in heads]
    for k in range(0, 3):
      for combo in itertools.combinations([(a, n) for a in kinds for n in names], k):
        ann = {a: {} for a in ['@Limit', '@OrderBy', '@NoInject', '@CompileAsTvf', '@With', '@NoWith', '@CompileAsUdf',
                               '@Ground', '@Make', '@Engine']}
        for a, n in combo:
          ann[a][n] = {'__rule_text': '%s(%s)' % (a, n)}
        obj = mk.annotations(mod)
        obj.annotations = ann
        yield {'args': [rules], 'self': obj, 'env': {'heads': (lambda heads=heads: set(heads))},
               'show': {'heads': heads, 'annotations': [list(c) for c in combo]}}


UNITS += [
  unit(U, 'RaiseCompilerError', external=True, params=['message', 'context'], types={'message': 'str', 'context': 'val'},
       fields={}, requires=[], ensures=[], raises={'RuleCompileException': 'True'}),
  unit(U, 'Annotations.CheckAnnotatedObjects', props=['C19', 'C08'], params=['rules'], types={'rules': 'list[RuleT]'},
       fields=ANN, modifies=[], exceptions=['RuleCompileException'],
       abstract_exprs={"{rule['head']['predicate_name'] for rule in rules}": ('heads', [], 'set[str]'),
                       "self.annotations[annotation_name][annotated_predicate]['__rule_text']": ('rule_text', [], 'val')},
       ufs={'heads': ([], 'set[str]'), 'rule_text': ([], 'val')},
       calls={'color.Warn': 'color.Format!ext', 'RaiseCompilerError': 'RaiseCompilerError'},
       locals={'all_predicates': 'set[str]'},
       requires=["'@Ground' in self.annotations", "'@Make' in self.annotations"],
       ensures=["all(all(p in ALLP for p in self.annotations[a]) for a in self.annotations if a in CHECKED)"
                .replace('ALLP', ALLP).replace('CHECKED', CHECKED)],
       may_raise={'RuleCompileException':
                  "not all(all(p in ALLP for p in self.annotations[a]) for a in self.annotations if a in CHECKED)"
                  .replace('ALLP', ALLP).replace('CHECKED', CHECKED)},
       loops={0: {'inv': ["all(implies(a in CHECKED, all(p in all_predicates for p in self.annotations[a])) "
                          "for a in _visited0)".replace('CHECKED', CHECKED),
                          "all_predicates == ALLP".replace('ALLP', ALLP)]},
              1: {'inv': ["all(p in all_predicates for p in _visited1)", "all_predicates == ALLP".replace('ALLP', ALLP)]}},
       native=lambda tier, mod: gen_cao(tier, mod)),
]
