"""C07 -- RuleStructure.SortUnnestings (compiler/rule_translate.py): the unnestings (`x in L` generators) of a rule are
put into dependency order, whatever order the conjuncts were written in.  The ordering loop is proved (slice from
`unnested = set()` to the end of the while loop); the three tables it starts from (unnesting_of, unnesting_variables,
depends_on -- dict comprehensions over the rule's syntax tree) are its parameters."""
from vlib.units import unit

RT = 'compiler/rule_translate.py'

INV = [
    # an unnesting is either still to place or placed: the placed variables are exactly those removed from the table
    "all(v in unnested or v in unnesting_of for v in old(unnesting_of))",
    "all(v in old(unnesting_of) and v not in unnesting_of for v in unnested)",
    "all(v in old(unnesting_of) and unnesting_of[v] == old(unnesting_of)[v] for v in unnesting_of)",
    # one list entry per placed variable (ghost: var_of(entry) is the variable an unnesting binds)
    "len(ordered_unnestings) >= 0",
    "all(var_of(ordered_unnestings[k]) in unnested for k in range(len(ordered_unnestings)))",
    "all(any(var_of(ordered_unnestings[k]) == v for k in range(len(ordered_unnestings))) for v in unnested)",
    "all(all(implies(i != j, var_of(ordered_unnestings[i]) != var_of(ordered_unnestings[j])) "
    "for j in range(len(ordered_unnestings))) for i in range(len(ordered_unnestings)))",
    # dependency order: everything the k-th unnesting depends on is bound by an earlier one
    "all(all(any(var_of(ordered_unnestings[j]) == d for j in range(k)) "
    "for d in depends_on[var_of(ordered_unnestings[k])]) for k in range(len(ordered_unnestings)))",
]

def gen_sort_unnestings(tier, mod):
  """Every dependency relation over up to three (quick) / four unnesting variables; cyclic ones end in the
  circular-dependency diagnostic, which the native contract allows only for them."""
  import itertools

  class Stub(object):
    full_rule_text = 'P(x) :- ...'
  names = ['b', 'a', 'c', 'd'][:3 if tier == 'quick' else 4]
  for n in range(0, len(names) + 1):
    vs = names[:n]
    pairs = [(x, y) for x in vs for y in vs]
    for mask in range(1 << len(pairs)):
      dep = {v: set() for v in vs}
      for k, (x, y) in enumerate(pairs):
        if mask >> k & 1:
          dep[x].add(y)

      def cyclic(dep=dep, vs=vs):
        done, left = set(), set(vs)
        while left:
          ready = [v for v in left if dep[v] <= done]
          if not ready:
            return True
          done.add(ready[0])
          left.discard(ready[0])
        return False
      table = {v: ({'variable': {'var_name': v}}, {'literal': v}) for v in vs}
      yield {'args': [dict(table), {v: set(d) for v, d in dep.items()}], 'self': Stub(),
             'env': {'var_of': (lambda u: u[0]['variable']['var_name']), 'cyclic': cyclic},
             'show': {'variables': vs, 'depends_on': {v: sorted(d) for v, d in dep.items()}}}


UNITS = [
  unit(RT, 'RuleStructure.SortUnnestings', name='RuleStructure.SortUnnestings[order]', props=['C07', 'C01'],
       slice=('unnested = set()', 'while unnesting_of'), cls='RuleStructure',
       params=['unnesting_of', 'depends_on'],
       types={'unnesting_of': 'dict[str,Unn]', 'depends_on': 'dict[str,set[str]]'},
       locals={'unnested': 'set[str]', 'ordered_unnestings': 'list[Unn]'},
       fields={}, modifies=[], result_var='ordered_unnestings', returns='list[Unn]',
       ufs={'var_of': (['Unn'], 'str')},
       exceptions=['RuleCompileException'], may_raise={'RuleCompileException': 'True'},
       native_may_raise={'RuleCompileException': 'cyclic()'}, native=gen_sort_unnestings,
       modifies_args=['unnesting_of'],
       requires=[
           # the table is keyed by the variable each unnesting binds; dependencies are among the table's variables
           "all(var_of(unnesting_of[v]) == v for v in unnesting_of)",
           "all(v in depends_on for v in unnesting_of)",
           "all(all(d in unnesting_of for d in depends_on[v]) for v in unnesting_of)"],
       ensures=[
           # a permutation of the unnestings ...
           "all(any(var_of(result[k]) == v for k in range(len(result))) for v in old(unnesting_of))",
           "all(var_of(result[k]) in old(unnesting_of) and result[k] == old(unnesting_of)[var_of(result[k])] "
           "for k in range(len(result)))",
           INV[6].replace('ordered_unnestings', 'result'),
           # ... in dependency order
           INV[7].replace('ordered_unnestings', 'result')],
       loops={0: {'inv': INV + ["all(result_entry_ok(k) for k in range(len(ordered_unnestings)))"],
                  'focus': {5: {'inv': [(0, 5), (0, 2), (1, 0), (1, 1), (1, 2)], 'req': [0]},
                            7: {'inv': [(0, 7), (0, 5), (0, 2), (1, 0), (1, 1), (1, 2)], 'req': [0]},
                            6: {'inv': [(0, 6), (0, 4), (0, 1), (0, 2), (1, 0), (1, 1), (1, 2)], 'req': [0]}}},
              # the for loop changes nothing before the iteration that places an unnesting and breaks
              1: {'inv': ["unnesting_of == at_loop_entry(unnesting_of)", "unnested == at_loop_entry(unnested)",
                          "ordered_unnestings == at_loop_entry(ordered_unnestings)"]}},
       spec_funcs={'result_entry_ok': (['k'], "var_of(ordered_unnestings[k]) in old(unnesting_of) and "
                                              "ordered_unnestings[k] == old(unnesting_of)[var_of(ordered_unnestings[k])]")}),
]
