"""C13 — justified frame / determinism sites (see vlib/frame.py).  Key: (file, function, kind, source).
Value: justification class.  A site found in the source that is not listed here is unjustified."""

J = {
  # F1: module / class level writes
  ('parser_py/parse.py', 'EnactIncantations', 'F1', "TOO_MUCH = 'fun'"):
      'function of the current main file only (set both ways on every main parse)',
  ('parser_py/parse.py', 'EnactIncantations', 'F1', "TOO_MUCH = 'too much'"):
      'function of the current main file only (set both ways on every main parse)',
  ('compiler/rule_translate.py', 'RuleStructure.ElliminateInternalVariables', 'F1', 'done = True'):
      'local flag of the loop',
  ('compiler/rule_translate.py', 'RuleStructure.ElliminateInternalVariables', 'F1', 'done = False'):
      'local flag; the nested helper declares `global done` and so writes a module name that nothing reads',
  ('compiler/expr_translate.py', 'QL.InstallBulkFunctionsOfStandardSQL', 'F1', 'cls.BULK_FUNCTIONS = bulk_functions'):
      'written once from the packaged CSV: a constant of the installation',
  ('compiler/expr_translate.py', 'QL.InstallBulkFunctionsOfStandardSQL', 'F1',
   'cls.BULK_FUNCTIONS_ARITY_RANGE = bulk_functions_arity_range'):
      'written once from the packaged CSV: a constant of the installation',
  # F2: class-level tables bound to instances; must only be read, or copied before being updated
  ('compiler/expr_translate.py', 'QL.__init__', 'F2', 'self.bulk_functions = self.BULK_FUNCTIONS'):
      'read-only alias; the table that is updated (built_in_functions) is a deepcopy',
  ('compiler/expr_translate.py', 'QL.__init__', 'F2', 'self.bulk_function_arity_range = self.BULK_FUNCTIONS_ARITY_RANGE'):
      'read-only alias',
  # F3: set-typed values used where order could matter
  ('parser_py/parse.py', 'ParseFile', 'F3', 'GeneratorExp: comprehension over defined_predicates & new_predicates'):
      'argument of any(): a boolean (the set itself appears only in the text of the diagnostic)',
  ('compiler/universe.py', 'Annotations.BuildFlagValues', 'F3', 'list(set(self.user_flags) - allowed_flags_set)'):
      'text of a diagnostic only',
  ('compiler/universe.py', 'LogicaProgram.__init__', 'F3', 'list(set(self.dollar_params) - set(self.flag_values))'):
      'text of a diagnostic only',
  ('compiler/universe.py', 'LogicaProgram.CheckOrderByClause', 'F3',
   "', '.join(set(order_by_columns) - set(actual_columns))"): 'text of a diagnostic only',
  ('compiler/functors.py', 'Functors.__init__', 'F3', 'for p in self.predicates'):
      'fills a memo table whose final content is the transitive closure, independent of the order',
  ('compiler/functors.py', 'Functors.UpdateStructure', 'F3', 'for p in self.predicates'):
      'fills a memo table whose final content is the transitive closure, independent of the order',
  ('compiler/functors.py', 'Functors.ArgsOf', 'F3', 'GeneratorExp: comprehension over built_args'):
      'consumed into a set by the caller',
  ('compiler/functors.py', 'Functors.CallFunctor', 'F3', 'list(predicates_to_annotate)'):
      'argument of CollectAnnotations, which turns it back into a set',
  ('compiler/functors.py', 'Functors.CallFunctor', 'F3', "','.join(bad_args)"): 'text of a diagnostic only',
  ('compiler/functors.py', 'Functors.UnfoldRecursivePredicateFlatFashion', 'F3', 'for c in simplified_cover'):
      'independent renamings of distinct names commute',
  ('compiler/functors.py', 'Functors.UnfoldRecursivePredicateDiamondFashion', 'F3', 'for c in simplified_cover'):
      'independent renamings of distinct names commute',
  ('compiler/functors.py', 'Functors.UnfoldRecursivePredicate', 'F3', 'for c in cover - {predicate}'):
      'renamings commute; the appended renaming functors define distinct predicates (rule order between predicates '
      'does not reach the SQL; bounded tier compares hash seeds)',
  ('compiler/functors.py', 'Functors.RemoveRulesProvenToBeNil', 'F3', "for p in proven_to_be_nothing - {'nil'}"):
      'renamings commute; which empty predicate is named in the diagnostic may vary',
  ('compiler/functors.py', 'Functors.RemoveRulesProvenToBeNil', 'F3', 'for p in defined_predicates'):
      'builds a set',
  ('compiler/functors.py', 'Functors.IsCutOfCover', 'F3', 'for x in cover_leaf & self.direct_args_of[t]'):
      'depth-first search returning a boolean that does not depend on the visiting order',
  ('compiler/functors.py', 'Functors.RecursiveAnalysis', 'F3', 'for p in c'): 'builds a dict keyed by p',
  ('compiler/rule_translate.py', 'ExtractRuleStructure', 'F3', 'list(set(s.select.keys()) - set(aggregated_vars))'):
      'immediately sorted',
  ('compiler/dialect_libraries/recursion_library.py', 'DiamondOrder', 'F3',
   'min(remaining, key=lambda p: (-fraction(p), p))'): 'the key contains the element itself: no ties',
  ('type_inference/research/infer.py', 'BuildDependencies', 'F3',
   'list(set(sorted(set(ds) - set([p]))) | set(result.get(p, [])))'):
      'consumed by BuildComplexities (a sum); with cyclic dependencies the visiting order can change the complexity '
      'of cycle members and thereby the order in which rules are typed -- the bounded tier compares hash seeds on '
      'typed mutually recursive programs',
  ('type_inference/research/reference_algebra.py', 'UnifyFriendlyRecords', 'F3', 'for f in set(concrete_a) | set(concrete_b)'):
      'fills a record dict; records are rendered with their fields sorted (RenderType / StrIntKey) and field '
      'unifications are independent of one another',
  # F4: environment reads
  ('type_inference/research/reference_algebra.py', 'TypeReference.__str__', 'F4', 'id(self)'): 'debug text only',
  ('type_inference/research/reference_algebra.py', 'VeryConcreteType', 'F4', 'id(t)'):
      'identity used for cycle detection only (membership test)',
  ('type_inference/research/reference_algebra.py', 'Unify', 'F4', 'id(a)'): 'identity comparison of the two roots',
  ('type_inference/research/reference_algebra.py', 'Unify', 'F4', 'id(b)'): 'identity comparison of the two roots',
  ('type_inference/research/reference_algebra.py', 'TypeStructureCopier.CopyTypeReference', 'F4', 'id(t)'):
      'key of a memo table local to one copier object',
  ('compiler/functors.py', 'Timer.__init__', 'F4', 'datetime.datetime.now()'): 'profiling helper, not on a path to SQL',
  ('compiler/functors.py', 'Timer.Stop', 'F4', 'datetime.datetime.now()'): 'profiling helper, not on a path to SQL',
  ('compiler/dialect_libraries/recursion_library.py', 'GetDiamondRecursionFunctor', 'F4', 'time.time()'):
      'the permitted variation: time-stamped stop-signal file name',
  ('compiler/dialect_libraries/recursion_library.py', 'GetFlatIterativeRecursionFunctor', 'F4', 'time.time()'):
      'the permitted variation: time-stamped stop-signal file name',
}
