"""C17 / C14 — materialisation of grounded predicates (compiler/universe.py)."""
from vlib.units import unit

F = 'compiler/universe.py'

EX = {
  'self.execution.dependency_edges': 'list[tuple[str,str]]',
  'self.execution.workflow_predicates_stack': 'list[str]',
  'self.execution.table_to_defined_table_map': 'dict[str,str]',
  'self.execution.defines_and_exports': 'list[str]',
  'self.execution.export_statements': 'list[str]',
  'self.execution.table_to_export_map': 'dict[str,str]',
  'self.execution.defines': 'list[str]',
  'self.program.defined_predicates': 'set[str]',
  'self.allocator': 'Alloc',
}
GROUND = {'Ground': {'table_name': 'str', 'overwrite': 'bool', 'copy_to_file': 'opt[str]'}}
NESTED_MODIFIES = ['self.execution.dependency_edges', 'self.execution.table_to_defined_table_map',
                   'self.execution.defines_and_exports', 'self.execution.export_statements',
                   'self.execution.table_to_export_map', 'self.execution.defines']

UNITS = [
  unit(F, 'FormatSql', props=['C17'], params=['s'], types={'s': 'str'}, returns='str', pure=True,
       ensures=["result == s + ';'"]),
  # ---- assumed contracts of the callees (bodies not verified here)
  unit(F, 'Logica.AddDefine', external=True, params=['define'], types={'define': 'str'}, fields=EX,
       modifies=['self.execution.defines']),
  unit(F, 'LogicaProgram.PredicateSql!nested', external=True, params=['name', 'allocator', 'external_vocabulary'],
       types={'name': 'str', 'allocator': 'Alloc', 'external_vocabulary': 'Vocab'}, fields=EX, returns='str',
       modifies=NESTED_MODIFIES,
       ensures=[
           # a nested compilation only appends to the statement list and to the edge list, and only
           # adds entries to the memo table
           "len(self.execution.defines_and_exports) >= len(old(self.execution.defines_and_exports))",
           "self.execution.defines_and_exports[:len(old(self.execution.defines_and_exports))] == "
           "old(self.execution.defines_and_exports)",
           "len(self.execution.dependency_edges) >= len(old(self.execution.dependency_edges))",
           "self.execution.dependency_edges[:len(old(self.execution.dependency_edges))] == "
           "old(self.execution.dependency_edges)",
           "all(k in self.execution.table_to_defined_table_map and "
           "self.execution.table_to_defined_table_map[k] == old(self.execution.table_to_defined_table_map)[k] "
           "for k in old(self.execution.table_to_defined_table_map))"]),
  unit(F, 'LogicaProgram.GenerateWithClauses!ext', external=True, pure=True, params=['predicate_name'],
       types={'predicate_name': 'str'}, fields={}, returns='opt[str]'),
  unit(F, 'LogicaProgram.UseFlagsAsParameters!ext', external=True, pure=True, params=['sql'],
       types={'sql': 'str'}, fields={}, returns='str'),
  unit(F, 'Dialect.MaybeCascadingDeletionWord', external=True, pure=True, params=[], fields={},
       returns='str'),
  unit(F, 'Annotations.Engine!ext', external=True, pure=True, params=[], fields={}, returns='str'),
  unit(F, 'SubqueryTranslator.AddClickhouseDropAction!ext', external=True, params=['table', 'ground'],
       types={'table': 'str', 'ground': 'rec[Ground]'}, records=GROUND, fields=EX,
       modifies=['self.execution.dependency_edges', 'self.execution.defines_and_exports',
                 'self.execution.export_statements', 'self.execution.table_to_export_map'],
       ensures=["self.execution.dependency_edges[:len(old(self.execution.dependency_edges))] == "
                "old(self.execution.dependency_edges)",
                "len(self.execution.dependency_edges) >= len(old(self.execution.dependency_edges))",
                "self.execution.defines_and_exports[:len(old(self.execution.defines_and_exports))] == "
                "old(self.execution.defines_and_exports)",
                "len(self.execution.defines_and_exports) >= len(old(self.execution.defines_and_exports))"]),

  unit(F, 'SubqueryTranslator.TranslateTableAttachedToFile', props=['C17', 'C14', 'C08'],
       params=['table', 'ground', 'external_vocabulary', 'edge_needed'],
       types={'table': 'str', 'ground': 'rec[Ground]', 'external_vocabulary': 'Vocab',
              'edge_needed': 'bool'},
       records=GROUND, fields=EX, returns='str',
       modifies=NESTED_MODIFIES + ['self.execution.workflow_predicates_stack'],
       calls={'self.execution.AddDefine': 'Logica.AddDefine',
              'self.program.PredicateSql': 'LogicaProgram.PredicateSql!nested',
              'self.program.GenerateWithClauses': 'LogicaProgram.GenerateWithClauses!ext',
              'self.program.UseFlagsAsParameters': 'LogicaProgram.UseFlagsAsParameters!ext',
              'self.execution.dialect.MaybeCascadingDeletionWord': 'Dialect.MaybeCascadingDeletionWord',
              'self.program.annotations.Engine': 'Annotations.Engine!ext',
              'self.AddClickhouseDropAction': 'SubqueryTranslator.AddClickhouseDropAction!ext'},
       requires=["implies(edge_needed, len(self.execution.workflow_predicates_stack) > 0)"],
       ensures=[
           # C14: every reader of a grounded table gets an edge, memo hit or not
           "implies(edge_needed, (table, old(self.execution.workflow_predicates_stack)"
           "[len(old(self.execution.workflow_predicates_stack)) - 1]) in self.execution.dependency_edges)",
           "self.execution.dependency_edges[:len(old(self.execution.dependency_edges))] == "
           "old(self.execution.dependency_edges)",
           # memo hit: the recorded table name, and nothing is emitted a second time
           "implies(table in old(self.execution.table_to_defined_table_map), "
           "result == old(self.execution.table_to_defined_table_map)[table] and "
           "self.execution.defines_and_exports == old(self.execution.defines_and_exports))",
           # first request: the name is the @Ground table name and it is memoised
           "implies(table not in old(self.execution.table_to_defined_table_map), "
           "result == ground.table_name and table in self.execution.table_to_defined_table_map and "
           "self.execution.table_to_defined_table_map[table] == ground.table_name)",
           # the workflow stack is restored
           "self.execution.workflow_predicates_stack == old(self.execution.workflow_predicates_stack)",
           # a defined grounded predicate: exactly one export statement, placed after everything the
           # nested compilation emitted (so after the exports of every grounded table it reads),
           # followed by the define line; earlier statements are untouched
           "implies(table not in old(self.execution.table_to_defined_table_map) and "
           "table in self.program.defined_predicates and Engine() != 'clickhouse' and "
           "len(self.execution.table_to_export_map[table]) > 0, "
           "len(self.execution.defines_and_exports) >= len(old(self.execution.defines_and_exports)) + 2 and "
           "self.execution.defines_and_exports[len(self.execution.defines_and_exports) - 2] == "
           "self.execution.table_to_export_map[table] and "
           "self.execution.defines_and_exports[len(self.execution.defines_and_exports) - 1] == "
           "'-- Interacting with table ' + ground.table_name and "
           "self.execution.defines_and_exports[:len(old(self.execution.defines_and_exports))] == "
           "old(self.execution.defines_and_exports))",
           # an external (undefined) grounded table: only the define line, no export
           "implies(table not in old(self.execution.table_to_defined_table_map) and "
           "table not in self.program.defined_predicates, "
           "self.execution.defines_and_exports == old(self.execution.defines_and_exports) + "
           "['-- Interacting with table ' + ground.table_name])"],
       spec_calls={'Engine': 'Annotations.Engine!ext'}),
]

