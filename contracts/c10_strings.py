"""C10 — string literals and flag values are data, never SQL."""
import itertools
import time

from vlib.units import unit
from vlib import mk
import copy

_PROG = []


def _prog(mod):
  if not _PROG:
    _PROG.append(mk.program(mod))
  return _PROG[0]

from vlib import strhom

F = 'compiler/expr_translate.py'
U = 'compiler/universe.py'


def dialect_names():
  from vlib import rt
  d = rt.repo_module('compiler.dialects')
  return sorted({cls().Name() for cls in d.DIALECTS.values()})


def decide_strliteral(u, node, tier):
  """One obligation group per dialect; complete for the fragment (see vlib/strhom.py)."""
  obls = []
  t0 = time.time()

  def ob(name, ok, text, model=None, kind='post'):
    obls.append({'name': 'QL.StrLiteral/' + name, 'kind': kind, 'text': text, 'instances': 1,
                 'result': 'proved' if ok else 'refuted', 'time': 0.0, 'backend': 'enum',
                 'model': model, 'line': 0})
  try:
    branches = strhom.extract_branches(node)
  except ValueError as e:
    obls.append({'name': 'QL.StrLiteral/fragment', 'kind': 'fragment', 'text': str(e), 'instances': 1,
                 'result': 'unknown', 'time': 0.0, 'backend': 'enum', 'model': None, 'line': 0})
    return obls
  names = dialect_names()
  ob('dialects-known', set(names) <= set(strhom.LEXERS), 'every dialect of DIALECTS has a lexer spec',
     {'dialects': names}, kind='vacuity')
  for d in names:
    if d not in strhom.LEXERS:
      continue
    sel = None
    for b in branches:
      if b[0] is None or d in b[0]:
        sel = b
        break
    if sel is None:
      ob(d + '/has-branch', False, 'a return statement is reached for dialect ' + d)
      continue
    full = (tier == 'thorough') or sel[1] == 'json'
    for suffix, ok, wit in strhom.decide_dialect(d, sel[1], sel[2], full):
      if suffix == 'classes':
        continue
      ob('%s/%s' % (d, suffix), ok,
         {'chain-is-homomorphism': 'every replace pattern is a single character',
          'opens-literal': 'the emitted text starts with the dialect\'s literal opener',
          'round-trip-per-character': 'decode_D(h(c)) == c and the lexer is back in its base state, for every character c',
          'image-stays-inside-literal': 'no image ends in a pending-quote state',
          'closes-literal': 'the emitted closing delimiter ends the literal exactly at the end of the text'}[suffix],
         wit)
  for o in obls:
    o['time'] = (time.time() - t0) / max(1, len(obls))
  return obls


ALPHA = ['a', 'A', '0', ' ', '\n', '\t', '"', "'", '`', '\\', '#', '/', '*', '(', ')', '[', ']', '{', '}',
         ',', ';', ':', '|', '$', '%', 'é', '😀', '\r', '\b', '_', '?']


def gen_strliteral(tier, mod):
  from vlib import rt
  dmod = rt.repo_module('compiler.dialects')
  n = 2 if tier == 'quick' else 3
  for cls in sorted(dmod.DIALECTS.values(), key=lambda c: c.__name__):
    dialect = cls()
    ql = mk.ql(mod, dialect)
    lx = strhom.LEXERS[dialect.Name()]
    for k in range(0, n + 1):
      for t in itertools.product(ALPHA, repeat=k):
        s = ''.join(t)
        if set(s) & strhom.EXCLUDED.get(dialect.Name(), set()):
          continue
        yield {'args': [{'the_string': s}], 'self': ql,
               'env': {'lex': lambda text, lx=lx: lex_all(lx, text), 's': s},
               'show': {'dialect': dialect.Name(), 'string': s}}


def lex_all(lx, text):
  if not text.startswith(lx.opener):
    return None
  st, out, end = lx.run(text[len(lx.opener):])
  if st != strhom.DONE or end is None:
    return None
  return out, len(lx.opener) + end


UNITS = [
  unit(F, 'QL.StrLiteral', props=['C10', 'C09'], params=['literal'], decide=decide_strliteral,
       # same contract, executable form (bounded cross-check of the homomorphism argument)
       ensures=["lex(result) == (s, len(result))"],
       native=gen_strliteral),
]


# ---------------------------------------------------------------- templates: single formatting pass
import re


def single_pass(template, args):
  """Spec: every slot of the template receives its argument once; nothing inside an argument is
  interpreted again.  Written with a tokenizer, independently of str.format / %."""
  if '%s' in template:
    out = []
    for tok in re.findall(r'%s|%%|[^%]+|%', template):
      if tok == '%s':
        out.append(', '.join(args[k] for k in sorted(args)))
      elif tok == '%%':
        out.append('%')
      else:
        out.append(tok)
    return ''.join(out)
  out = []
  for tok in re.findall(r'\{\{|\}\}|\{[A-Za-z0-9_]*\}|[^{}]+', template):
    if tok == '{{':
      out.append('{')
    elif tok == '}}':
      out.append('}')
    elif tok.startswith('{'):
      key = tok[1:-1]
      out.append(args[int(key)] if key.isdigit() else args[key])
    else:
      out.append(tok)
  return ''.join(out)


NASTY = ["x", "'{1}'", "'{0}'", "'%s'", "'%d%%'", "'}{'", "'{left}'", "'{right}'", "a.b", "'{2}{1}{0}'"]


def all_templates(mod):
  from vlib import rt
  d = rt.repo_module('compiler.dialects')
  fs, ops = set(), set()
  mod.QL.InstallBulkFunctionsOfStandardSQL()
  for t in list(mod.QL.BUILT_IN_FUNCTIONS.values()) + list(mod.QL.BULK_FUNCTIONS.values())[:40]:
    if t:
      fs.add(t)
  for t in mod.QL.BUILT_IN_INFIX_OPERATORS.values():
    if t:
      ops.add(t)
  for cls in d.DIALECTS.values():
    for t in cls().BuiltInFunctions().values():
      if t:
        fs.add(t)
    for t in cls().InfixOperators().values():
      if t:
        ops.add(t)
  return sorted(fs), sorted(ops)


def slots(template):
  if '%s' in template:
    return None
  ks = [int(k) for k in re.findall(r'\{(\d+)\}', template)]
  return (max(ks) + 1) if ks else 0


def gen_function(tier, mod):
  fs, _ = all_templates(mod)
  ql = mk.ql(mod)
  pool = NASTY if tier == 'thorough' else NASTY[:7]
  for f in fs:
    n = slots(f)
    arities = [1, 2, 3] if n is None else [n]
    for k in arities:
      combos = itertools.product(pool, repeat=k) if k <= 2 else \
          [tuple(pool[(i + j) % len(pool)] for j in range(k)) for i in range(len(pool))]
      for args in combos:
        a = {i: x for i, x in enumerate(args)}
        yield {'args': [f, a], 'self': ql, 'env': {'single_pass': single_pass},
               'show': {'template': f, 'args': list(args)}}


def gen_infix(tier, mod):
  _, ops = all_templates(mod)
  ql = mk.ql(mod)
  for op in ops:
    for l in NASTY:
      for r in NASTY:
        yield {'args': [op, {'left': l, 'right': r}], 'self': ql, 'env': {'single_pass': single_pass},
               'show': {'template': op, 'left': l, 'right': r}}


def infix_spec(op, args):
  if '%s' in op:
    it = iter([args['left'], args['right']])
    return ''.join(next(it) if t == '%s' else ('%' if t == '%%' else t)
                   for t in re.findall(r'%s|%%|[^%]+|%', op))
  return single_pass(op, args)


# ---------------------------------------------------------------- flags
def mk_annotations(mod, defines, resets, user):
  a = mk.annotations(mod)
  a.annotations = {k: {} for k in mod.Annotations.ANNOTATING_PREDICATES}
  for f, d in defines.items():
    a.annotations['@DefineFlag'][f] = ({'1': d} if d is not None else {})
  for f, d in resets.items():
    a.annotations['@ResetFlagValue'][f] = ({'1': d} if d is not None else {})
  a.user_flags = dict(user)
  return a


def flag_spec(defines, resets, user):
  out = {f: (d if d is not None else '${%s}' % f) for f, d in defines.items()}
  out.update({f: (d if d is not None else '${%s}' % f) for f, d in resets.items()})
  out.update(user)
  return out


def gen_flags(tier, mod):
  vals = [None, '', 'v', '0', "it's", '${g}']
  for df in vals:
    for dg in (None, 'w'):
      for reset in ({}, {'f': 'r'}, {'f': ''}, {'g': None}):
        for user in ({}, {'f': 'u'}, {'f': ''}, {'g': '"q"'}, {'h': 'x'}, {'logica_default_engine': 'sqlite'},
                     {'f': 'u', 'zz': '1'}):
          defines = {'f': df, 'g': dg}
          yield {'args': [], 'self': mk_annotations(mod, defines, reset, user),
                 'env': {'expected': flag_spec(defines, reset, user),
                         'undefined': sorted(set(user) - set(defines) - {'logica_default_engine'})},
                 'show': {'@DefineFlag': defines, '@ResetFlagValue': reset, 'user_flags': user}}


def expand(s, flags, depth=0):
  """Spec of ${flag} expansion for non-recursive flag sets: innermost-first textual substitution."""
  if depth > 60:
    raise RecursionError('recursive flags')
  def sub(m):
    f = m.group(1)
    if f in flags and flags[f] != '${%s}' % f:
      return expand(flags[f], flags, depth + 1)
    return m.group(0)
  return re.sub(r'\$\{([^}]*)\}', sub, s)


def is_recursive(flags):
  def reach(f, seen):
    for g in re.findall(r'\$\{([^}]*)\}', flags.get(f, '')):
      if g in flags and flags[g] != '${%s}' % g:
        if g in seen or reach(g, seen | {g}):
          return True
    return False
  return any(reach(f, {f}) for f in flags if flags[f] != '${%s}' % f)


def gen_useflags(tier, mod):
  flagsets = [{}, {'f': 'v'}, {'f': '${f}'}, {'f': 'a', 'g': 'x${f}y'}, {'f': '${g}', 'g': '${f}'},
              {'f': 'p${g}', 'g': 'q${h}', 'h': 'r'}, {'f': ''}, {'f': "it's ${g}", 'g': '$'},
              {'f': '{0}', 'g': '%s'}]
  # {'f': '${f}${f}'} doubles the text on every pass until MemoryError (minutes): exercised under a
  # memory cap by props/c10.py (known finding), not here
  texts = ['', 'SELECT 1', 'SELECT ${f}', "SELECT '${f}' || '${g}'", '${unknown} ${f}', '$ {f} ${ f} ${f',
           '${f}${g}${h}', "x = '${YYYY}'"]
  for flags in flagsets:
    for t in texts:
      p = copy.copy(_prog(mod))
      p.flag_values = dict(flags)
      yield {'args': [t], 'self': p,
             'env': {'expand': expand, 'flags': flags, 'recursive': is_recursive(flags), 're': re},
             'show': {'flags': flags, 'sql': t}}


UNITS += [
  unit(F, 'QL.Function', props=['C10', 'C09'], deductive=False, params=['f', 'args'],
       # a single formatting pass: placeholders of the template only, arguments are data
       ensures=["result == single_pass(f, args)"], native=gen_function),
  unit(F, 'QL.Infix', props=['C10', 'C09'], deductive=False, params=['op', 'args'],
       native_env={'infix_spec': infix_spec},
       ensures=["result == infix_spec(op, args)"], native=gen_infix),
  unit(U, 'Annotations.BuildFlagValues', props=['C10'], deductive=False, params=[],
       # defaults overridden by @ResetFlagValue overridden by user flags; a default of '' is a default
       ensures=["result == expected"],
       raises={'RuleCompileException': "len(undefined) > 0"}, native=gen_flags),
  unit(U, 'LogicaProgram.UseFlagsAsParameters', props=['C10'], deductive=False, params=['sql'],
       ensures=[
           # only the documented ${flag} form of a *defined* flag is expanded
           "implies(not any(('${%s}' % f) in sql for f in flags), result == sql)",
           # for flag sets without cyclic references: the full expansion, user text untouched elsewhere
           "implies(not recursive, result == expand(sql, flags))",
           # on normal return nothing is left to expand: no ${f} of a flag whose value differs from ${f}
           # survives, unless the flags refer to each other cyclically
           "implies(not recursive, not any(('${%s}' % f) in result and flags[f] != '${%s}' % f for f in flags))"],
       # expansion terminates: it returns, or reports recursive flags -- and only for cyclic flag sets
       may_raise={'RuleCompileException': "recursive"},
       native=gen_useflags),
]



# ---------------------------------------------------------------- termination of flag expansion (deductive)
UNITS += [
  unit('compiler/rule_translate.py', 'RuleCompileException', external=True, params=[], fields={}),
  unit(U, 'LogicaProgram.UseFlagsAsParameters', name='LogicaProgram.UseFlagsAsParameters[termination]', props=['C10'],
       params=['sql'], types={'sql': 'str'}, fields={'self.flag_values': 'dict[str,str]'}, returns='str',
       # expansion terminates: the pass counter bounds the loop (variant 101 - num_subs), the 101st pass
       # raises the recursive-flags diagnostic; the inner substitution loop is abstracted (any text)
       ensures=["True"],
       may_raise={'RuleCompileException': "True"},
       loops={0: {'inv': ["0 <= num_subs and num_subs <= 100"], 'dec': "101 - num_subs"},
              1: {'inv': []}}),
]


# ---------------------------------------------------------------------------------------------------------------
# Annotations.BuildFlagValues proved: defaults (@DefineFlag) overridden by @ResetFlagValue overridden by user flags;
# a flag the user passes without a definition (other than logica_default_engine) is the only reason for the diagnostic.
DEF = "self.annotations['@DefineFlag']"
RST = "self.annotations['@ResetFlagValue']"
DEFLT = "DEF[f].get('1', '${%s}' % f)".replace('DEF', DEF)
RSTV = "RST[f].get('1', '${%s}' % f)".replace('RST', RST)
ALLOWED = "all(f in DEF or f == 'logica_default_engine' for f in self.user_flags)".replace('DEF', DEF)

UNITS += [
  unit(U, 'Annotations.BuildFlagValues', name='Annotations.BuildFlagValues[proved]', props=['C10'], params=[],
       fields={'self.annotations': 'dict[str,dict[str,dict[str,val]]]', 'self.user_flags': 'dict[str,val]'}, modifies=[],
       returns='dict[str,val]',
       locals={'default_values': 'dict[str,val]', 'programmatic_flag_values': 'dict[str,val]', 'flag_values': 'dict[str,val]'},
       exceptions=['RuleCompileException'], raises={'RuleCompileException': "not (%s)" % ALLOWED},
       requires=["'@DefineFlag' in self.annotations", "'@ResetFlagValue' in self.annotations"],
       ensures=[
           "all(f in result for f in DEF)".replace('DEF', DEF), "all(f in result for f in RST)".replace('RST', RST),
           "all(f in result for f in self.user_flags)",
           "all(f in DEF or f in RST or f in self.user_flags for f in result)".replace('DEF', DEF).replace('RST', RST),
           ("all(result[f] == (self.user_flags[f] if f in self.user_flags else (RSTV if f in RST else DEFLT)) "
            "for f in result)").replace('RSTV', RSTV).replace('DEFLT', DEFLT).replace('RST', RST)],
       loops={0: {'inv': ["all(f in default_values and default_values[f] == DEFLT for f in _visited0)".replace('DEFLT', DEFLT),
                          "all(f in _visited0 for f in default_values)"]},
              1: {'inv': ["all(f in programmatic_flag_values and programmatic_flag_values[f] == RSTV for f in _visited1)"
                          .replace('RSTV', RSTV), "all(f in _visited1 for f in programmatic_flag_values)"]}},
       native=gen_flags, native_skip_ensures=[]),
]
