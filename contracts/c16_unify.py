"""C16 — type unification is a symmetric idempotent meet (type_inference/research/reference_algebra.py).

Bounded contracts of Unify / UnifyListElement / UnifyRecordField / CloseRecord against the spec
function `meet` on type terms (DESIGN.md appendix A.2), over all terms of depth <= 1 and sampled
terms of depth <= 2, built both with every sub-term behind a TypeReference and with sub-terms held
directly (as the built-in signatures do), and through alias chains."""
import itertools
import random

from vlib.units import unit

F = 'type_inference/research/reference_algebra.py'
BOT = 'BOT'
ATOMS = ['Any', 'Singular', 'Sequential', 'Num', 'Str', 'Bool', 'Time']
FIELDS = ['a', 0]


def is_list(t):
  return isinstance(t, tuple) and t[0] == 'list'


def is_rec(t):
  return isinstance(t, tuple) and t[0] in ('open', 'closed')


def meet(a, b):
  if a == BOT or b == BOT:
    return BOT
  if a == 'Any':
    return b
  if b == 'Any':
    return a
  if a == b and isinstance(a, str):
    return a
  for x, y in ((a, b), (b, a)):
    if x == 'Singular':
      if is_list(y):
        return BOT
      if y == 'Sequential':
        return 'Str'
      return y
  for x, y in ((a, b), (b, a)):
    if x == 'Sequential':
      if y == 'Str' or is_list(y):
        return y
      return BOT
  if isinstance(a, str) or isinstance(b, str):
    return BOT
  if is_list(a) and is_list(b):
    e = meet(a[1], b[1])
    return BOT if e == BOT else ('list', e)
  if is_list(a) or is_list(b):
    return BOT
  da, db = dict(a[1]), dict(b[1])
  if a[0] == 'closed' and b[0] == 'closed' and set(da) != set(db):
    return BOT
  if a[0] == 'open' and b[0] == 'closed' and not set(da) <= set(db):
    return BOT
  if a[0] == 'closed' and b[0] == 'open' and not set(db) <= set(da):
    return BOT
  out = {}
  for f in set(da) | set(db):
    m = meet(da.get(f, 'Any'), db.get(f, 'Any'))
    if m == BOT:
      return BOT
    out[f] = m
  kind = 'closed' if 'closed' in (a[0], b[0]) else 'open'
  return (kind, tuple(sorted(out.items(), key=lambda kv: str(kv[0]))))


def terms(depth):
  if depth == 0:
    return list(ATOMS)
  sub = terms(depth - 1)
  out = list(ATOMS)
  out += [('list', t) for t in sub if not is_list(t)]          # lists of lists are rejected by design
  for kind in ('open', 'closed'):
    out.append((kind, ()))
    for f in FIELDS:
      out += [(kind, ((f, t),)) for t in sub]
    out += [(kind, tuple(sorted(((FIELDS[0], t1), (FIELDS[1], t2)), key=lambda kv: str(kv[0]))))
            for t1 in sub[:4] for t2 in sub[:4]]
  seen, res = set(), []
  for t in out:
    if t not in seen:
      seen.add(t)
      res.append(t)
  return res


def build(mod, t, mode):
  """Term -> TypeReference graph.  mode 'refs': every sub-term behind a reference; 'direct': sub-terms
  held directly as concrete values; 'chain': the top reference is an alias of an alias."""
  def conc(t, top):
    if isinstance(t, str):
      return t
    if is_list(t):
      e = conc(t[1], False)
      return [e if mode == 'direct' else mod.TypeReference(e)]
    cls = mod.OpenRecord if t[0] == 'open' else mod.ClosedRecord
    return cls({f: (conc(v, False) if mode == 'direct' else mod.TypeReference(conc(v, False))) for f, v in t[1]})
  r = mod.TypeReference(conc(t, True))
  if mode == 'chain':
    r = mod.TypeReference(mod.TypeReference(r))
  return r


def obs(mod, ref):
  def conv(c):
    if isinstance(c, mod.BadType):
      return BOT
    if isinstance(c, str):
      return c
    if isinstance(c, list):
      e = conv(c[0])
      return BOT if e == BOT else ('list', e)
    if isinstance(c, dict):
      items = []
      for f, v in c.items():
        e = conv(v)
        if e == BOT:
          return BOT
        items.append((f, e))
      return ('closed' if isinstance(c, mod.ClosedRecord) else 'open', tuple(sorted(items, key=lambda kv: str(kv[0]))))
    raise AssertionError('unexpected concrete type %r' % (c,))
  return conv(mod.VeryConcreteType(ref))


def pairs(tier, seed=0):
  t1 = terms(1)
  for a in t1:
    for b in t1:
      yield a, b
  rnd = random.Random(seed)
  t2 = terms(2)
  for _ in range(3000 if tier == 'quick' else 40000):
    yield rnd.choice(t2), rnd.choice(t2)


def gen_unify(tier, mod):
  k = 0
  for ta, tb in pairs(tier):
    k += 1
    modes = [('refs', 'refs'), ('refs', 'direct'), ('direct', 'refs'), ('chain', 'direct'), ('direct', 'chain')]
    ma, mb = modes[k % len(modes)]
    a, b = build(mod, ta, ma), build(mod, tb, mb)
    yield {'args': [a, b], 'env': {'m': meet(ta, tb), 'obs': lambda r: obs(mod, r), 'BOT': BOT,
                                   'swapped': swapped(mod, ta, tb, ma, mb), 'twice': lambda x, y: again(mod, x, y)},
           'show': {'a': ta, 'b': tb, 'built': [ma, mb]}}


def swapped(mod, ta, tb, ma, mb):
  a, b = build(mod, ta, ma), build(mod, tb, mb)
  mod.Unify(b, a)
  return obs(mod, a), obs(mod, b)


def again(mod, a, b):
  before = (obs(mod, a), obs(mod, b))
  mod.Unify(a, b)
  return before == (obs(mod, a), obs(mod, b))


def gen_triples(tier, mod):
  rnd = random.Random(7)
  t1 = terms(1)
  t2 = terms(2)
  n = 1500 if tier == 'quick' else 20000
  for i in range(n):
    pool = t1 if i % 2 else t2
    ts = [rnd.choice(pool) for _ in range(3)]
    results = []
    for perm in itertools.permutations(range(3)):
      x = mod.TypeReference('Any')
      for j in perm:
        mod.Unify(x, build(mod, ts[j], ['refs', 'direct', 'chain'][j]))
      results.append(obs(mod, x))
    want = meet(meet(ts[0], ts[1]), ts[2])
    yield {'args': [mod.TypeReference('Any'), mod.TypeReference('Any')],
           'env': {'results': results, 'want': want, 'BOT': BOT}, 'show': {'constraints': ts}}


def gen_systems(tier, mod):
  """Constraint systems over three variables: each starts as a term, constraints are equalities between two
  variables or between a variable and a term; every order of the constraints (both argument orders)
  must leave every variable denoting the meet of its connected component."""
  rnd = random.Random(11)
  t0 = terms(0)
  t1 = terms(1)
  n = 2500 if tier == 'quick' else 30000
  small = ['Any', 'Singular', 'Sequential', 'Str', 'Num', ('list', 'Any'), ('list', 'Num'), ('list', 'Singular'),
           ('open', ()), ('open', (('a', 'Any'),)), ('open', (('a', 'Num'),)), ('closed', (('a', 'Num'),))]
  for i in range(n):
    pool = [small, t0, t1][i % 3]
    init = [rnd.choice(pool) if rnd.random() < 0.7 else 'Any' for _ in range(3)]
    cons = []
    for _ in range(rnd.choice([2, 3, 3, 4])):
      if rnd.random() < 0.6:
        a, b = rnd.sample(range(3), 2)
        cons.append(('vv', a, b))
      else:
        cons.append(('vt', rnd.randrange(3), rnd.choice(pool)))
    # spec: union-find over the variables, meet of everything in the component
    comp = list(range(3))
    def find(x):
      while comp[x] != x:
        x = comp[x]
      return x
    for c in cons:
      if c[0] == 'vv':
        comp[find(c[1])] = find(c[2])
    want = {}
    for v in range(3):
      want.setdefault(find(v), 'Any')
      want[find(v)] = meet(want[find(v)], init[v])
    for c in cons:
      if c[0] == 'vt':
        want[find(c[1])] = meet(want[find(c[1])], c[2])
    wants = [want[find(v)] for v in range(3)]
    results = []
    for perm in itertools.permutations(range(len(cons))):
      for flip in (False, True):
        vs = [build(mod, t, 'refs') for t in init]
        for j in perm:
          c = cons[j]
          x = vs[c[1]]
          y = vs[c[2]] if c[0] == 'vv' else build(mod, c[2], ['refs', 'direct'][j % 2])
          if flip:
            x, y = y, x
          mod.Unify(x, y)
        results.append([obs(mod, v) for v in vs])
    yield {'args': [mod.TypeReference('Any'), mod.TypeReference('Any')],
           'env': {'results': results, 'wants': wants, 'BOT': BOT},
           'show': {'variables': init, 'constraints': cons}}


def gen_close(tier, mod):
  """Close a record through an alias; every reference of the class must see the closed record."""
  for fields in ((('a', 'Num'),), (('a', 'Num'), (0, 'Str')), ()):
    for via in ('root', 'alias', 'alias2'):
      root = mod.TypeReference(mod.OpenRecord({f: mod.TypeReference(t) for f, t in fields}))
      x = mod.TypeReference('Any')
      y = mod.TypeReference('Any')
      mod.Unify(x, root)
      mod.Unify(y, x)
      target = {'root': root, 'alias': x, 'alias2': y}[via]
      yield {'args': [], 'self': target, 'nocopy': True,
             'env': {'others': [root, x, y], 'obs': lambda r: obs(mod, r), 'mod': mod,
                     'addressed_missing_clashes': lambda rs: missing_field_clashes(mod, rs)},
             'show': {'fields': fields, 'closed_through': via}}


def missing_field_clashes(mod, refs):
  out = []
  for r in refs:
    mod.UnifyRecordField(r, 'zz_missing', mod.TypeReference('Num'))
    out.append(obs(mod, r) == BOT)
  return all(out)


UNITS = [
  unit(F, 'Unify', props=['C16'], deductive=False, params=['a', 'b'],
       ensures=[
           # both sides denote the meet of what they denoted; clash exactly when there is no common type
           "obs(a) == m and obs(b) == m",
           # the outcome does not depend on the argument order
           "swapped == (m, m)",
           # repeating the unification changes nothing
           "twice(a, b)"],
       native=gen_unify),
  unit(F, 'Unify', name='Unify[order-independence]', props=['C16'], deductive=False, params=['a', 'b'],
       # for clash-free constraint sets the result does not depend on the order of unification
       ensures=["implies(want != BOT, all(r == want for r in results))"],
       native=gen_triples),
  unit(F, 'Unify', name='Unify[constraint-systems]', props=['C16'], deductive=False, params=['a', 'b'],
       # clash-free systems of equalities between variables and terms: every order of the constraints and
       # both argument orders leave each variable denoting the meet of its connected component
       ensures=["implies(all(w != BOT for w in wants), all(r == wants for r in results))"],
       native=gen_systems),
  unit(F, 'TypeReference.CloseRecord', props=['C16'], deductive=False, params=[],
       ensures=["all(obs(r)[0] == 'closed' for r in others)",
                # a closed record that lacks an addressed field is a clash, through every alias
                "addressed_missing_clashes(others)"],
       native=gen_close),
]


def gen_list_elem(tier, mod):
  t1 = terms(1)
  k = 0
  for ta in t1:
    for tb in t1:
      k += 1
      mode = ['refs', 'direct', 'chain'][k % 3]
      a, b = build(mod, ta, mode), build(mod, tb, 'refs')
      e = meet(tb, 'Singular')
      yield {'args': [a, b], 'env': {'m': meet(ta, BOT if e == BOT else ('list', e)), 'e': e, 'BOT': BOT,
                                     'obs': lambda r: obs(mod, r)},
             'show': {'list': ta, 'element': tb}}


def gen_record_field(tier, mod):
  t1 = terms(1)
  k = 0
  for ta in t1:
    for tb in ATOMS + [('list', 'Num'), ('open', (('a', 'Str'),))]:
      for f in ('a', 0, 'zz'):
        k += 1
        a, b = build(mod, ta, ['refs', 'direct', 'chain'][k % 3]), build(mod, tb, 'refs')
        yield {'args': [a, f, b], 'env': {'m': meet(ta, ('open', ((f, tb),))), 'obs': lambda r: obs(mod, r)},
               'show': {'record': ta, 'field': f, 'value': tb}}


UNITS += [
  unit(F, 'UnifyListElement', props=['C16'], deductive=False, params=['a_list', 'b_element'],
       # `b in a`: a is a list whose element is the (non-list) type of b
       # (a list as element is a clash reported on the element)
       ensures=["implies(e != BOT, obs(a_list) == m)", "implies(e == BOT, obs(b_element) == BOT)"],
       native=gen_list_elem),
  unit(F, 'UnifyRecordField', props=['C16'], deductive=False, params=['a_record', 'field_name', 'b_field_value'],
       # `a.f = b`: a is a record with at least the field f of b's type; a closed record lacking f clashes
       ensures=["obs(a_record) == m"], native=gen_record_field),
]
