"""C03 — unfolding schedule of recursion (compiler/functors.py, dialect_libraries/recursion_library.py)."""
from vlib.units import unit

FU = 'compiler/functors.py'
RL = 'compiler/dialect_libraries/recursion_library.py'


def gen_depth(tier, mod):
  for d in range(0, 12 if tier == 'quick' else 40):
    yield {'args': [d], 'show': {'depth': d}}


def rec_line(i):
  return 'P_r%d := P_recursive_head(P_recursive: P_r%d);' % (i + 1, i)


UNITS = [
  # the ignition arithmetic inside Functors.UnfoldRecursions (a slice of the function)
  unit(FU, 'Functors.UnfoldRecursions', name='Functors.UnfoldRecursions[ignition]', props=['C03'],
       slice=('ignition = ', 'if ignition % 2'),
       params=['depth'], types={'depth': 'int'}, returns='int', result_var='ignition',
       abstract_exprs={'len(my_cover[p])': ('cover_size', [], 'int')},
       ufs={'cover_size': ([], 'int')},
       requires=["cover_size() >= 1", "depth >= 0"],
       ensures=[
           # enough ignition steps to fill every member of the cover, iterate twice and finish
           "result >= cover_size() + 3 and result <= cover_size() + 4",
           # parity: the repetitions formula (depth + 1 - ignition) // 2 + 1 then lands exactly on depth
           "(depth + 1 - result) % 2 == 0"]),

  unit(RL, 'GetRecursionFunctor', props=['C03'], params=['depth'], types={'depth': 'int'}, returns='str',
       locals={'result_lines': 'list[str]'},
       requires=["depth >= 0"],
       spec_funcs={'rec_line': (['i'], "'P_r' + str(i + 1) + ' := P_recursive_head(P_recursive: P_r' + str(i) + ');'")},
       native_env={'rec_line': rec_line},
       ensures=[
           # the program text is the lines joined by newlines (final_result_lines: the list at return)
           "result == '\\n'.join(final_result_lines)",
           # depth + 2 lines: generation 0 from nil, generation i+1 from generation i, P is generation depth
           "len(final_result_lines) == depth + 2",
           "final_result_lines[0] == 'P_r0 := P_recursive_head(P_recursive: nil);'",
           "all(final_result_lines[i + 1] == rec_line(i) for i in range(depth))",
           "final_result_lines[depth + 1] == 'P := P_r' + str(depth) + '();'",
           # executable form of the same statement (bounded back end)
           "result == '\\n'.join(['P_r0 := P_recursive_head(P_recursive: nil);'] + "
           "[rec_line(i) for i in range(depth)] + ['P := P_r' + str(depth) + '();'])"],
       smt_skip_ensures=[5], native_skip_ensures=[0, 1, 2, 3, 4],
       loops={0: {'inv': ["len(result_lines) == _i0 + 1",
                          "result_lines[0] == 'P_r0 := P_recursive_head(P_recursive: nil);'",
                          "all(result_lines[k + 1] == rec_line(k) for k in range(_i0))"]}},
       native=gen_depth),
]
