"""C03 — unfolding schedule of recursion (compiler/functors.py, dialect_libraries/recursion_library.py)."""
from vlib.units import unit

FU = 'compiler/functors.py'
RL = 'compiler/dialect_libraries/recursion_library.py'


def gen_depth(tier, mod):
  for d in range(0, 12 if tier == 'quick' else 40):
    yield {'args': [d], 'show': {'depth': d}}


def rec_line(i):
  return 'P_r%d := P_recursive_head(P_recursive: P_r%d);' % (i + 1, i)


UNITS = [
  # the ignition arithmetic inside Functors.UnfoldRecursions (a slice of the function)
  unit(FU, 'Functors.UnfoldRecursions', name='Functors.UnfoldRecursions[ignition]', props=['C03'],
       slice=('ignition = ', 'if ignition % 2'),
       params=['depth'], types={'depth': 'int'}, returns='int', result_var='ignition',
       abstract_exprs={'len(my_cover[p])': ('cover_size', [], 'int')},
       ufs={'cover_size': ([], 'int')},
       requires=["cover_size() >= 1", "depth >= 0"],
       ensures=[
           # enough ignition steps to fill every member of the cover, iterate twice and finish
           "result >= cover_size() + 3 and result <= cover_size() + 4",
           # parity: the repetitions formula (depth + 1 - ignition) // 2 + 1 then lands exactly on depth
           "(depth + 1 - result) % 2 == 0"]),

  unit(RL, 'GetRecursionFunctor', props=['C03'], params=['depth'], types={'depth': 'int'}, returns='str',
       locals={'result_lines': 'list[str]'},
       requires=["depth >= 0"],
       spec_funcs={'rec_line': (['i'], "'P_r' + str(i + 1) + ' := P_recursive_head(P_recursive: P_r' + str(i) + ');'")},
       native_env={'rec_line': rec_line},
       ensures=[
           # the program text is the lines joined by newlines (final_result_lines: the list at return)
           "result == '\\n'.join(final_result_lines)",
           # depth + 2 lines: generation 0 from nil, generation i+1 from generation i, P is generation depth
           "len(final_result_lines) == depth + 2",
           "final_result_lines[0] == 'P_r0 := P_recursive_head(P_recursive: nil);'",
           "all(final_result_lines[i + 1] == rec_line(i) for i in range(depth))",
           "final_result_lines[depth + 1] == 'P := P_r' + str(depth) + '();'",
           # executable form of the same statement (bounded back end)
           "result == '\\n'.join(['P_r0 := P_recursive_head(P_recursive: nil);'] + "
           "[rec_line(i) for i in range(depth)] + ['P := P_r' + str(depth) + '();'])"],
       smt_skip_ensures=[5], native_skip_ensures=[0, 1, 2, 3, 4],
       loops={0: {'inv': ["len(result_lines) == _i0 + 1",
                          "result_lines[0] == 'P_r0 := P_recursive_head(P_recursive: nil);'",
                          "all(result_lines[k + 1] == rec_line(k) for k in range(_i0))"]}},
       native=gen_depth),
]


# ---------------------------------------------------------------- flat / iterative unfolding programs (bounded)
import itertools
import re


def parse_lib(text):
  makes, grounds, iters = {}, [], []
  for line in text.split('\n'):
    m = re.match(r'^(\w+) := (\w+)\((.*)\);$', line)
    if m:
      args = {}
      if m.group(3).strip():
        for part in m.group(3).split(', '):
          k, v = part.split(': ')
          args[k] = v
      assert m.group(1) not in makes, 'defined twice: ' + m.group(1)
      makes[m.group(1)] = (m.group(2), args)
      continue
    m = re.match(r'^@Ground\((\w+)(?:, (\w+))?(?:, copy_to_file: "[^"]*")?\);$', line)
    if m:
      grounds.append((m.group(1), m.group(2)))
      continue
    m = re.match(r'^@Iteration\((\w+), predicates: \[(.*)\], repetitions: (-?\d+)(?:, stop_signal: "[^"]*")?\);$', line)
    if m:
      iters.append((m.group(1), m.group(2).split(', '), int(m.group(3))))
      continue
    raise AssertionError('unexpected line %r' % line)
  return makes, grounds, iters


def covers():
  for names in (['A'], ['A', 'B'], ['A', 'B', 'C']):
    for bits in itertools.product([0, 1], repeat=len(names) * len(names)):
      d = {p: [q for j, q in enumerate(names) if bits[i * len(names) + j]] + ['Ext'] for i, p in enumerate(names)}
      yield set(names), d


def flat_ok(text, depth, cover, direct, tag='fr', steps=None):
  makes, grounds, iters = parse_lib(text)
  steps = depth + 1 if steps is None else steps
  for p in cover:
    for i in range(steps):
      f, args = makes['%s_%s%d' % (p, tag, i)]
      want = {'%s_RZero' % a: ('nil' if i == 0 else '%s_%s%d' % (a, tag, i - 1)) for a in set(direct[p]) & cover}
      if f != p + '_ROne' or args != want:
        return 'generation %d of %s is %s(%s), should read generation %d of every member it calls' % (i, p, f, args, i - 1)
    if makes[p] != ('%s_%s%d' % (p, tag, steps - 1), {}):
      return '%s is not generation %d' % (p, steps - 1)
  if len(makes) != len(cover) * (steps + 1):
    return 'unexpected extra definitions'
  return None


def gen_flat(tier, mod):
  n = 0
  for cover, direct in covers():
    n += 1
    if tier == 'quick' and len(cover) == 3 and n % 17:
      continue
    for depth in (0, 1, 2, 5):
      yield {'args': [depth, cover, direct], 'env': {'flat_ok': flat_ok},
             'show': {'depth': depth, 'cover': sorted(cover), 'direct_args_of': direct}}


def iter_ok(text, depth, cover, direct, ign):
  msg = flat_ok('\n'.join(l for l in text.split('\n') if ':=' in l), depth, cover, direct, tag='ifr', steps=ign)
  if msg:
    return msg
  makes, grounds, iters = parse_lib(text)
  g = dict(grounds)
  for p in cover:
    for i in range(ign):
      name = '%s_ifr%d' % (p, i)
      if name not in g:
        return '%s is not grounded' % name
      if g[name] != ('%s_ifr%d' % (p, i - 2) if i == ign - 2 else None):
        return '%s grounded onto %r' % (name, g[name])
  if len(iters) != 1:
    return 'exactly one @Iteration expected'
  it, preds, reps = iters[0]
  want = ['%s_ifr%d' % (p, ign - 3) for p in sorted(cover)] + ['%s_ifr%d' % (p, ign - 2) for p in sorted(cover)]
  if preds != want:
    return 'iteration members %r, expected upper half then lower half in sorted member order %r' % (preds, want)
  if reps != (depth + 1 - ign) // 2 + 1:
    return 'repetitions %d, expected (depth + 1 - ignition) // 2 + 1 = %d' % (reps, (depth + 1 - ign) // 2 + 1)
  return None


def gen_iter(tier, mod):
  n = 0
  for cover, direct in covers():
    n += 1
    if (tier == 'quick' and n % 7) or len(cover) == 3 and n % 29:
      continue
    for depth in (21, 22, 25, 40):
      ign = len(cover) + 3
      if ign % 2 == depth % 2:
        ign += 1
      for stop in (None, sorted(cover)[0]):
        yield {'args': [depth, cover, direct, ign, stop], 'env': {'iter_ok': iter_ok, 'ign': ign},
               'show': {'depth': depth, 'cover': sorted(cover), 'ignition': ign, 'stop': stop}}


UNITS += [
  unit(RL, 'GetFlatRecursionFunctor', props=['C03'], deductive=False, params=['depth', 'cover', 'direct_args_of'],
       # for every member p and 0 <= i <= depth, p_fr{i} binds a_RZero of every member a it calls to nil (i = 0) or
       # a_fr{i-1}; p is p_fr{depth}: depth+1 simultaneous applications
       ensures=["flat_ok(result, depth, cover, direct_args_of) is None"], native=gen_flat),
  unit(RL, 'GetFlatIterativeRecursionFunctor', props=['C03', 'C14'], deductive=False,
       params=['depth', 'cover', 'direct_args_of', 'ignition_steps', 'stop'],
       ensures=["iter_ok(result, depth, cover, direct_args_of, ignition_steps) is None"], native=gen_iter),
  unit(RL, 'GetRenamingFunctor', props=['C03'], deductive=False, params=['member', 'root'],
       ensures=["result == member + ' := ' + member + '_recursive_head(' + root + '_recursive: ' + root + ');'"],
       native=lambda tier, mod: ({'args': [m, r], 'show': [m, r]} for m in ('B', 'Cc') for r in ('A', 'Root'))),
]


# ---------------------------------------------------------------------------------------------------------------
# Recursive component analysis: the first loop of Functors.RecursiveAnalysis (slice) collects the recursive
# components ("covers").  Given that args_of is transitively closed (what ArgsOf computes: bounded contract of
# C04), each cover is strongly connected (every member is a transitive argument of every member), maximal (nothing
# mutually reachable with a member is left out), and the covers are pairwise disjoint; `covered` is their union.
RA = {'self.args_of': 'dict[str,set[str]]'}
COVER_INV = [
    "all(all(x in covered for x in cover[k]) for k in range(len(cover)))",
    # strongly connected
    "all(all(all(x in self.args_of and y in self.args_of[x] for y in cover[k]) for x in cover[k]) "
    "for k in range(len(cover)))",
    # maximal among the predicates that have rules
    "all(all(all(implies(y in self.args_of and x in self.args_of[y], y in cover[k]) for y in self.args_of[x]) "
    "for x in cover[k]) for k in range(len(cover)))",
    # pairwise disjoint
    "all(all(implies(i != j, all(x not in cover[j] for x in cover[i])) for j in range(len(cover))) "
    "for i in range(len(cover)))",
    # everything covered is in some cover
    "all(any(x in cover[k] for k in range(len(cover))) for x in covered)",
]

def gen_cover(tier, mod):
  """args_of = transitive closure of every digraph over up to three (quick) / four predicates plus a table."""
  import itertools

  class Stub(object):
    pass
  names = ['P', 'Q', 'R', 'S'][:3 if tier == 'quick' else 4]
  for n in range(1, len(names) + 1):
    ns = names[:n]
    pairs = [(a, b) for a in ns for b in ns + ['T']]
    for mask in range(1 << len(pairs)):
      if n == 4 and bin(mask).count('1') > 6:
        continue
      d = {a: set() for a in ns}
      for k, (a, b) in enumerate(pairs):
        if mask >> k & 1:
          d[a].add(b)
      clo = {}
      for a in ns:
        seen, todo = set(), list(d[a])
        while todo:
          e = todo.pop()
          if e not in seen:
            seen.add(e)
            todo.extend(d.get(e, ()))
        clo[a] = seen
      st = Stub()
      st.args_of = clo
      yield {'args': [{}], 'self': st, 'show': {'args_of': {k: sorted(v) for k, v in clo.items()}}}


UNITS += [
  unit(FU, 'Functors.RecursiveAnalysis', name='Functors.RecursiveAnalysis[cover]', props=['C03'], native=gen_cover,
       slice=('cover = []', 'for p, args in self.args_of.items()'), cls='Functors',
       params=['depth_map'], types={'depth_map': 'dict[str,str]'}, fields=RA, modifies=[],
       locals={'cover': 'list[set[str]]', 'covered': 'set[str]', 'deep': 'set[str]', 'c': 'set[str]'},
       result_var='cover', returns='list[set[str]]', set_axioms=True,
       requires=[
           # args_of is transitively closed over the predicates that have an entry
           "all(all(all(z in self.args_of[x] for z in self.args_of[y]) "
           "for y in self.args_of[x] if y in self.args_of) for x in self.args_of)"],
       ensures=[e.replace('cover', 'result') for e in COVER_INV[1:4]] + [
           # a predicate that is its own transitive argument (and is not an auxiliary of the multi-body rewrite)
           # lies in some cover -- after the loop nothing recursive is left uncovered
           ],
       loops={0: {'inv': COVER_INV}, 1: {'inv': [
           "p in c", "all(x == p or (x in args and x in self.args_of and p in self.args_of[x]) for x in c)",
           # (ghost _visited1: the members of args processed so far) nothing eligible that was visited is left out
           "all(implies(x in self.args_of and p in self.args_of[x], x in c) for x in _visited1)"]}}),
]
