"""C01 / C11 — elimination of disjunction: DisjunctiveNormalForm of parser_py/parse.py.

Structural contracts: the DNF of a disjunction is the concatenation of the alternatives' DNFs (so
multiplicities add), the DNF of a conjunction is the product, clause by clause, in order (so they
multiply).  The multiplicity reading is checked natively on all small propositions."""
import itertools
from vlib.units import unit

F = 'parser_py/parse.py'
DNF = 'list[list[Prop]]'

PDNF = "DisjunctiveNormalForm.PropositionToDNF"


# ---- native multiplicity semantics: atoms have multiplicity, AND multiplies, OR adds
def M(prop, m):
  if 'conjunction' in prop:
    r = 1
    for c in prop['conjunction']['conjunct']:
      r *= M(c, m)
    return r
  if 'disjunction' in prop:
    return sum(M(d, m) for d in prop['disjunction']['disjunct'])
  return m[prop['atom']]


def Vdnf(dnf, m):
  t = 0
  for clause in dnf:
    r = 1
    for a in clause:
      r *= m[a['atom']]
    t += r
  return t


def props(depth, atoms):
  if depth == 0:
    for a in atoms:
      yield {'atom': a}
    return
  for a in atoms:
    yield {'atom': a}
  subs = list(props(depth - 1, atoms))
  for k in (1, 2, 3):
    for combo in itertools.product(subs, repeat=k):
      if k == 3 and depth > 1:
        continue
      yield {'conjunction': {'conjunct': list(combo)}}
      yield {'disjunction': {'disjunct': list(combo)}}


MULT = {'p': 2, 'q': 3, 'r': 5}


def gen_prop(tier, mod):
  n = 0
  for p in props(2, ['p', 'q'] if tier == 'quick' else ['p', 'q', 'r']):
    n += 1
    if tier == 'quick' and n % 7:
      continue
    yield {'args': [p], 'env': dict(NATIVE_P, Vdnf=Vdnf, M=M, m=MULT, DisjunctiveNormalForm=mod.DisjunctiveNormalForm),
           'show': p}


def gen_conj(tier, mod):
  atoms = [{'atom': a} for a in 'pqr']
  dnf_pool = [[], [[atoms[0]]], [[atoms[0]], [atoms[1]]], [[atoms[0], atoms[1]]], [[atoms[2]], [atoms[0], atoms[2]], [atoms[1]]]]
  for k in (1, 2, 3):
    for combo in itertools.product(dnf_pool, repeat=k):
      yield {'args': [list(combo)], 'env': {'DisjunctiveNormalForm': mod.DisjunctiveNormalForm},
             'show': [[[a['atom'] for a in cl] for cl in d] for d in combo]}


def gen_disj(tier, mod):
  for p in props(1, ['p', 'q']):
    pass
  pool = list(props(1, ['p', 'q']))
  for k in (0, 1, 2, 3):
    for combo in itertools.product(pool[:8], repeat=k):
      def off(i, combo=combo, mod=mod):
        return sum(len(mod.DisjunctiveNormalForm.PropositionToDNF(d)) for d in combo[:i])
      yield {'args': [list(combo)], 'env': dict(NATIVE_P, off=off, DisjunctiveNormalForm=mod.DisjunctiveNormalForm),
             'show': list(combo)}


def gen_conjuncts(tier, mod):
  pool = list(props(1, ['p', 'q']))[:8]
  for k in (1, 2, 3):
    for combo in itertools.product(pool, repeat=k):
      yield {'args': [list(combo)], 'env': dict(NATIVE_P, DisjunctiveNormalForm=mod.DisjunctiveNormalForm),
             'show': list(combo)}


def flat(dnfs):
  return [c for d in dnfs for c in d]


PUFS = {'wf': (['Prop'], 'bool'), 'is_conj': (['Prop'], 'bool'), 'is_disj': (['Prop'], 'bool'),
        'conj_of': (['Prop'], 'list[Prop]'), 'disj_of': (['Prop'], 'list[Prop]')}
# wf(p): every conjunction nested in p has at least one conjunct (what the parser produces)
WF_AXIOMS = [
    "all(implies(wf(p) and is_conj(p), len(conj_of(p)) >= 1 and all(wf(c) for c in conj_of(p))) "
    "for p in Sort('Prop'))",
    "all(implies(wf(p) and not is_conj(p) and is_disj(p), all(wf(d) for d in disj_of(p))) "
    "for p in Sort('Prop'))"]
NATIVE_P0 = {'wf': lambda p: True, 'is_conj': lambda p: 'conjunction' in p, 'is_disj': lambda p: 'disjunction' in p}

NATIVE_P = NATIVE_P0

UNITS = [
  unit(F, PDNF, pure=True, props=['C01', 'C11'], params=['proposition'],
       types={'proposition': 'Prop'}, returns=DNF, cls='DisjunctiveNormalForm',
       abstract_exprs={"'conjunction' in proposition": ('is_conj', ['proposition'], 'bool'),
                       "'disjunction' in proposition": ('is_disj', ['proposition'], 'bool'),
                       "proposition['conjunction']['conjunct']": ('conj_of', ['proposition'], 'list[Prop]'),
                       "proposition['disjunction']['disjunct']": ('disj_of', ['proposition'], 'list[Prop]')},
       ufs=PUFS, axioms=WF_AXIOMS, native_env=NATIVE_P,
       requires=["wf(proposition)"],
       ensures=["implies('conjunction' in proposition, result == "
                "DisjunctiveNormalForm.ConjunctsToDNF(proposition['conjunction']['conjunct']))",
                "implies('conjunction' not in proposition and 'disjunction' in proposition, result == "
                "DisjunctiveNormalForm.DisjunctsToDNF(proposition['disjunction']['disjunct']))",
                "implies('conjunction' not in proposition and 'disjunction' not in proposition, "
                "result == [[proposition]])",
                # bag reading: the clauses' multiplicities sum to the proposition's
                "Vdnf(result, m) == M(proposition, m)"],
       smt_skip_ensures=[3], native=gen_prop),

  unit(F, 'DisjunctiveNormalForm.DisjunctsToDNF', pure=True, props=['C01', 'C11'], params=['disjuncts'],
       types={'disjuncts': 'list[Prop]'}, returns=DNF, locals={'result': DNF},
       ufs=dict(PUFS, off=(['int'], 'int')),
       requires=["all(wf(d) for d in disjuncts)"],
       axioms=WF_AXIOMS + [
           # off(k): number of clauses contributed by the first k alternatives (prefix sum)
           "off(0) == 0",
           "all(off(k + 1) == off(k) + len(DisjunctiveNormalForm.PropositionToDNF(disjuncts[k])) "
           "for k in range(len(disjuncts)))"],
       ensures=[
           # the alternatives' DNFs, concatenated in order: nothing dropped, nothing merged
           "len(result) == off(len(disjuncts))",
           "all(all(result[off(i) + j] == DisjunctiveNormalForm.PropositionToDNF(disjuncts[i])[j] "
           "for j in range(len(DisjunctiveNormalForm.PropositionToDNF(disjuncts[i])))) "
           "for i in range(len(disjuncts)))"],
       loops={0: {'inv': [
           "len(result) == off(_i0)",
           "all(off(i) >= 0 for i in range(_i0 + 1))",
           "all(off(i) + len(dnfs[i]) <= off(_i0) for i in range(_i0))",
           ]}},
       # the position-wise clause is checked by the bounded back end only: its nested-quantifier VC is
       # trigger-sensitive in z3 (proved or unknown depending on clause order), so it is not counted
       smt_skip_ensures=[1], native=lambda tier, mod: gen_disj(tier, mod)),

  unit(F, 'DisjunctiveNormalForm.ConjunctsToDNF', pure=True, props=['C01', 'C11'], params=['conjuncts'],
       types={'conjuncts': 'list[Prop]'}, returns=DNF,
       ufs=PUFS, axioms=WF_AXIOMS, native=lambda tier, mod: gen_conjuncts(tier, mod),
       requires=["len(conjuncts) >= 1", "all(wf(c) for c in conjuncts)"],
       ensures=["result == DisjunctiveNormalForm.ConjunctionOfDnfs("
                "[DisjunctiveNormalForm.PropositionToDNF(c) for c in conjuncts])"]),

  unit(F, 'DisjunctiveNormalForm.ConjunctionOfDnfs', pure=True, props=['C01', 'C11'], params=['dnfs'],
       types={'dnfs': 'list[list[list[Prop]]]'}, returns=DNF, locals={'result': DNF},
       requires=["len(dnfs) >= 1"],
       ensures=["implies(len(dnfs) == 1, result == dnfs[0])",
                # the product, clause by clause, in order: |result| = |first| * |rest|
                "implies(len(dnfs) > 1, len(result) == len(dnfs[0]) * "
                "len(DisjunctiveNormalForm.ConjunctionOfDnfs(dnfs[1:])))",
                "implies(len(dnfs) > 1, all(all("
                "result[p * len(DisjunctiveNormalForm.ConjunctionOfDnfs(dnfs[1:])) + q] == "
                "dnfs[0][p] + DisjunctiveNormalForm.ConjunctionOfDnfs(dnfs[1:])[q] "
                "for q in range(len(DisjunctiveNormalForm.ConjunctionOfDnfs(dnfs[1:])))) "
                "for p in range(len(dnfs[0]))))"],
       # |result| = |first| * |rest| is proved (non-linear, but the invariants are linear in the loop
       # counters); the position-wise clause [2] is checked by the bounded back end only
       smt_skip_ensures=[2],
       loops={0: {'inv': ["len(result) == _i0 * len(DisjunctiveNormalForm.ConjunctionOfDnfs(other_dnfs))"]},
              1: {'inv': ["len(result) == _i0 * len(DisjunctiveNormalForm.ConjunctionOfDnfs(other_dnfs)) + _i1"]}},
       native=lambda tier, mod: gen_conj(tier, mod)),
]
