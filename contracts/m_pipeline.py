"""Run-time contracts (monitors) on the compiler pipeline units of compiler/rule_translate.py and
compiler/universe.py.  These are the units whose bodies rewrite dict trees in place and are outside
the deductive subset; their contracts are checked on every call made while the schema catalogue
compiles (bounded stand-in, labelled bounded)."""
import re

from vlib.monitor import Monitor, CURRENT, snapshot

RT = 'compiler.rule_translate'
UN = 'compiler.universe'
EPHEMERAL = ['~']


def nows(s):
  return re.sub(r'\s+', '', s)


def children(unit_suffix):
  return [(a, r) for (u, a, r) in CURRENT[0]['children'] if u.endswith(unit_suffix)]


# ------------------------------------------------------------------ PredicateSql
def pre_predicate_sql(self, name, allocator=None, external_vocabulary=None):
  return {'rules': list(self.GetPredicateRules(name))}


def post_predicate_sql(snap, result, self, name, allocator=None, external_vocabulary=None):
  srs = [r for (a, r) in children('SingleRuleSql')]
  n = len(snap['rules'])
  ob = self.annotations.OrderByClause(name)
  lim = self.annotations.LimitClause(name)
  assert len(srs) == n, 'every rule of the predicate is compiled exactly once (%d rules, %d compiled)' % (n, len(srs))
  if n == 1:
    assert result == srs[0] + ob + lim, \
        'single rule: result == rule SQL + ORDER BY clause + LIMIT clause\n%r' % result[-120:]
  else:
    live = [s for s in srs if not s.startswith('/* nil */')]
    want = 'SELECT*FROM(' + 'UNIONALL'.join(nows(s) for s in live) + ')ASUNUSED_TABLE_NAME' + nows(ob) + nows(lim)
    assert nows(result) == want, \
        'several rules: every non-nil rule SQL once, in program order, joined by UNION ALL, ' \
        'ORDER BY / LIMIT outside the union\n%d live rules; got %r' % (len(live), result[:200])


# ------------------------------------------------------------------ AsSql
def pre_as_sql(self, subquery_encoder=None, flag_values=None):
  return {'tables': list(self.tables.items()), 'n_unnest': len(self.unnestings),
          'constraints': list(self.constraints), 'distinct_vars': list(self.distinct_vars),
          'select': list(self.select.keys()), 'distinct_denoted': self.distinct_denoted}


def post_as_sql(snap, result, self, subquery_encoder=None, flag_values=None):
  conv = children('QL.ConvertToSql')
  tt = children('SubqueryTranslator.TranslateTable')
  assert result.startswith('SELECT\n'), 'starts with SELECT'
  need_from = bool(snap['tables'] or snap['n_unnest'] or snap['constraints'] or snap['distinct_denoted'])
  live = [c for c in snap['constraints'] if c['call']['predicate_name'] not in EPHEMERAL]
  # SQL of each constraint, as converted by the direct ConvertToSql calls of this AsSql
  sql_of = {}
  for (a, r) in conv:
    sql_of[id(a[1])] = r
  if live:
    missing = [c for c in live if id(c) not in sql_of]
    assert not missing, 'every non-ephemeral constraint is converted to SQL'
    where = ' AND\n'.join('\n'.join('  ' + l for l in sql_of[id(c)].split('\n')) for c in live)
    assert ('\nWHERE\n' + where) in result, \
        'WHERE is the AND-join of every non-ephemeral constraint (%d constraints)\n%s' % (len(live), result[-300:])
  if need_from:
    assert '\nFROM\n' in result, 'FROM is emitted when the rule has tables, unnestings or constraints'
  # every table of the structure appears in FROM exactly as `translated AS alias` (or bare)
  assert len(tt) == len(snap['tables']), 'each table is translated once'
  for (k, v), (a, sql) in zip(snap['tables'], tt):
    entry = sql if sql == k else sql + ' AS ' + k
    flat = '\n'.join('  ' + l for l in entry.split('\n'))
    assert entry in result or flat in result, 'table %s appears in FROM as %r' % (k, entry[:60])
  if need_from and not snap['tables'] and not snap['n_unnest']:
    assert "(SELECT 'singleton' as s) as unused_singleton" in result, 'a rule without tables selects from the singleton'
  if snap['distinct_vars']:
    assert '\nGROUP BY ' in result, 'GROUP BY iff distinct_vars'
  # select list: exactly the head's fields in head order, each `value-sql AS field`
  import compiler.rule_translate as rt_
  head = result.split('\nFROM\n')[0] if need_from else result
  pos = 0
  for k, v in self.select.items():
    if k == '*':
      continue
    assert id(v) in sql_of, 'every select value is converted to SQL'
    item = '%s AS %s' % (sql_of[id(v)], rt_.LogicaFieldToSqlField(k))
    j = result.find(item, pos)
    assert j >= 0, 'select list has `value AS field` for every head field, in head order (%s)' % k
    pos = j + len(item)
  assert list(self.select.keys()) == snap['select'], 'AsSql does not change the select keys'


# ------------------------------------------------------------------ UnificationsToConstraints
def pre_u2c(self):
  return {'n': len(self.constraints), 'old': list(self.constraints), 'us': [(u['left'], u['right']) for u in self.vars_unification]}


def post_u2c(snap, result, self):
  assert self.constraints[:snap['n']] == snap['old'], 'existing constraints are kept'
  added = self.constraints[snap['n']:]
  want = [(l, r) for (l, r) in snap['us'] if l != r]
  assert len(added) == len(want), 'every non-trivial unification becomes exactly one constraint'
  for c, (l, r) in zip(added, want):
    fv = c['call']['record']['field_value']
    assert c['call']['predicate_name'] == '==' and fv[0]['value']['expression'] == l and \
        fv[1]['value']['expression'] == r, 'the constraint is left == right'


# ------------------------------------------------------------------ SortUnnestings
def pre_sort_unnest(self):
  return {'ids': sorted(map(id, self.unnestings)), 'n': len(self.unnestings)}


def post_sort_unnest(snap, result, self):
  import compiler.rule_translate as rt_
  assert sorted(map(id, self.unnestings)) == snap['ids'], 'output is a permutation of the input'
  names = [u[0]['variable']['var_name'] for u in self.unnestings]
  seen = set()
  for u in self.unnestings:
    deps = set(rt_.AllMentionedVariables(u[1], dive_in_combines=True)) & set(names)
    assert deps <= seen, 'each unnesting comes after the unnestings whose variable it mentions'
    seen.add(u[0]['variable']['var_name'])


# ------------------------------------------------------------------ allocator freshness
_ALLOC = {}


def post_alloc_var(snap, result, self, hint=None):
  seen = self.__dict__.setdefault('_verif_seen_vars', set())   # per allocator object (not id(): ids are recycled)
  assert result not in seen, 'AllocateVar never repeats a name'
  seen.add(result)


def pre_alloc_table(self, hint_for_user=None):
  return set(self.allocated_tables)


def post_alloc_table(snap, result, self, hint_for_user=None):
  assert result not in snap, 'AllocateTable returns a name not allocated before'
  assert result in self.allocated_tables, 'the name is recorded'


# ------------------------------------------------------------------ ElliminateInternalVariables
def post_eliminate(snap, result, self, assert_full_ellimination=False, unfold_records=True):
  if assert_full_ellimination:
    assert not self.InternalVariables(), \
        'normal return with assert_full_ellimination implies no internal variable is left'


# ------------------------------------------------------------------ RunInjections
def pre_inject(self, s, allocator):
  return {'tables': dict(s.tables)}


def injectable(prog, p):
  rules = list(prog.GetPredicateRules(p))
  return len(rules) == 1 and 'distinct_denoted' not in rules[0] and prog.annotations.OkInjection(p)


def post_inject(snap, result, self, s, allocator):
  for k, p in s.tables.items():
    assert not injectable(self, p), 'no injectible table is left when the loop ends (%s)' % p
  for k, p in snap['tables'].items():
    if k not in s.tables:
      assert injectable(self, p), 'only single-rule, non-distinct, OkInjection predicates are injected (%s)' % p
  for k, p in snap['tables'].items():
    if not injectable(self, p):
      assert s.tables.get(k) == p, 'a non-injectible table stays in the structure (%s)' % p
  # vocabulary: every variable map entry refers to a table of the structure or to an unnesting
  for (t, f) in s.vars_map:
    assert t is None or t in s.tables, 'vars_map refers to a table that is still in FROM (%s)' % t


# ------------------------------------------------------------------ HeadToSelect
def post_head_to_select(snap, result, head):
  select, agg = result
  fields = [fv['field'] for fv in head['record']['field_value']]
  if fields:
    assert list(select.keys()) == fields, 'select has exactly the head fields in head order'
  else:
    assert list(select.keys()) == ['atom'], 'an empty head yields the single column atom'
  assert agg == [fv['field'] for fv in head['record']['field_value'] if 'aggregation' in fv['value']], \
      'aggregated fields are those written with an aggregation'


# ------------------------------------------------------------------ InlinePredicateValues
def _calls(r, alloc, out, in_combine=False):
  if isinstance(r, dict):
    for k in r:
      if k in ('combine', 'type'):
        continue
      if isinstance(r[k], (dict, list)):
        _calls(r[k], alloc, out)
    if 'call' in r and not alloc.FunctionExists(r['call']['predicate_name']):
      out.append(r['call']['predicate_name'])
  elif isinstance(r, list):
    for x in r:
      if isinstance(x, (dict, list)):
        _calls(x, alloc, out)


def pre_inline(rule, names_allocator):
  out = []
  _calls(rule, names_allocator, out)
  n_conj = len(rule.get('body', {}).get('conjunction', {}).get('conjunct', []))
  return {'calls': out, 'n_conj': n_conj}


def post_inline(snap, result, rule, names_allocator):
  out = []
  _calls(rule, names_allocator, out)
  assert not out, 'no call to a user predicate is left inside an expression (outside combines)'
  conj = rule.get('body', {}).get('conjunction', {}).get('conjunct', [])
  assert len(conj) == snap['n_conj'] + len(snap['calls']), \
      'one conjunct is appended per inlined call (%d calls)' % len(snap['calls'])
  for c, p in zip(conj[snap['n_conj']:], snap['calls']):
    fv = c['predicate']['record']['field_value']
    assert c['predicate']['predicate_name'] == p and fv[-1]['field'] == 'logica_value' and \
        'variable' in fv[-1]['value']['expression'], 'the conjunct binds logica_value to the fresh variable'


# ------------------------------------------------------------------ DisambiguateCombineVariables
def _all_vars(tree, acc):
  acc |= set(tree['variables'])
  for t in tree['subtrees']:
    _all_vars(t, acc)
  return acc


def pre_disambiguate(rule, names_allocator):
  import compiler.rule_translate as rt_
  return {'vars': _all_vars(rt_.GetTreeOfCombines(rule), set())}


def post_disambiguate(snap, result, rule, names_allocator):
  import compiler.rule_translate as rt_
  tree = rt_.GetTreeOfCombines(rule)
  # disambiguated names are unique across the whole compilation (rules get injected into each other)
  fresh = {v for v in _all_vars(tree, set()) - snap['vars'] if '# disambiguated with' in v}
  used = names_allocator.__dict__.setdefault('_verif_seen_dis', set())
  assert not (fresh & used), 'a disambiguated combine variable name is never reused in another rule (%r)' % sorted(fresh & used)[:2]
  used |= fresh
  seen = {}

  def walk(t, outer, path):
    intro = t['variables'] - outer
    for v in intro:
      assert v not in seen or seen[v] == path, \
          'variables first mentioned in different combines get distinct names (%r)' % v
      seen[v] = path
    for i, sub in enumerate(t['subtrees']):
      walk(sub, t['variables'] | outer, path + (i,))
  for i, sub in enumerate(tree['subtrees']):
    walk(sub, tree['variables'], (i,))


# ------------------------------------------------------------------ ExtractRuleStructure
def post_extract(snap, result, rule, names_allocator=None, external_vocabulary=None):
  s = result
  agg = [fv['field'] for fv in rule['head']['record']['field_value'] if 'aggregation' in fv['value']]
  if agg:
    assert s.distinct_denoted, 'an aggregating rule that compiles is distinct denoted'
  if s.distinct_denoted:
    want = sorted(list(set(s.select.keys()) - set(agg)), key=str)
    assert s.distinct_vars == want, 'distinct_vars are the non-aggregated select keys'


# ------------------------------------------------------------------ TranslateTable
def pre_translate_table(self, table, external_vocabulary, edge_needed=True):
  return {'edges': len(self.execution.data_dependency_edges),
          'stack_top': self.execution.workflow_predicates_stack[-1] if self.execution.workflow_predicates_stack else None}


def post_translate_table(snap, result, self, table, external_vocabulary, edge_needed=True):
  prog = self.program
  if table in prog.table_aliases:
    assert result == prog.table_aliases[table], 'alias table -> alias'
    return
  ground = prog.annotations.Ground(table)
  if ground:
    assert result == ground.table_name, 'grounded table -> its table name'
    return
  if table in prog.defined_predicates:
    if prog.execution.With(table):
      assert result == self.execution.table_to_defined_table_map[table], 'WITH table -> its WITH name'
    else:
      assert result.startswith('(') and result.endswith(')'), 'inline sub-query in parentheses'
    return
  assert self.execution.data_dependency_edges[snap['edges']:] == [(table, snap['stack_top'])], \
      'an undefined table is read as data: one data-dependency edge to the predicate being built'


# ------------------------------------------------------------------ Functors.MakeAll / CallFunctor order
_MAKE = {}


def pre_make_all(self, predicate_to_instruction):
  pending = set()
  for p, i in predicate_to_instruction:
    pending.add(self.ParseMakeInstruction(p, i)[0])
  _MAKE[id(self)] = pending
  return None


def pre_call_functor(self, name, applicant, args_map):
  pending = _MAKE.get(id(self))
  if pending is None:
    return None
  blocked = (({applicant} | set(self.args_of.get(applicant, ())) | set(args_map.values())) & pending) - {name}
  assert_msg = ('a predicate is made only after its applicant, everything the applicant depends on and all bound '
                'values have been made (%s still pending when making %s)' % (sorted(blocked), name))
  if blocked:
    from vlib.monitor import MonitorViolation
    raise MonitorViolation('compiler.functors:Functors.CallFunctor', assert_msg.split(' (')[0], assert_msg)
  pending.discard(name)
  return None


MONITORS = [
  Monitor(UN + ':LogicaProgram.SingleRuleSql', ['C01'], ['(recorded for PredicateSql)']),
  Monitor('compiler.expr_translate:QL.ConvertToSql', ['C01'], ['(recorded for AsSql)']),
  Monitor(UN + ':LogicaProgram.PredicateSql', ['C01', 'C07', 'C18'],
          ['every rule compiled once', 'single rule: SQL + ORDER BY + LIMIT',
           'several rules: non-nil rule SQLs once each in program order joined by UNION ALL, clauses outside'],
          pre_predicate_sql, post_predicate_sql),
  Monitor(RT + ':RuleStructure.AsSql', ['C01', 'C02', 'C09'],
          ['WHERE is the AND-join of every non-ephemeral constraint', 'every table once in FROM',
           'singleton table iff nothing else', 'GROUP BY iff distinct_vars', 'select list = head fields in order'],
          pre_as_sql, post_as_sql),
  Monitor(RT + ':RuleStructure.UnificationsToConstraints', ['C01'],
          ['existing constraints kept', 'one == constraint per non-trivial unification'], pre_u2c, post_u2c),
  Monitor(RT + ':RuleStructure.SortUnnestings', ['C07', 'C01'],
          ['permutation of the input', 'dependency order'], pre_sort_unnest, post_sort_unnest),
  Monitor(RT + ':NamesAllocator.AllocateVar', ['C07', 'C09'], ['never repeats'], None, post_alloc_var),
  Monitor(RT + ':NamesAllocator.AllocateTable', ['C07', 'C09'], ['fresh table alias'], pre_alloc_table, post_alloc_table),
  Monitor(RT + ':RuleStructure.ElliminateInternalVariables', ['C19', 'C01'],
          ['normal return with assert_full_ellimination => no internal variables'], None, post_eliminate),
  Monitor(UN + ':LogicaProgram.RunInjections', ['C08', 'C01'],
          ['only injectible predicates are injected', 'no injectible table left', 'vars_map refers to live tables'],
          pre_inject, post_inject),
  Monitor(RT + ':HeadToSelect', ['C01', 'C11'], ['select = head fields in order', 'aggregated fields'],
          None, post_head_to_select),
  Monitor(RT + ':InlinePredicateValues', ['C11', 'C01'],
          ['every functional call in an expression becomes a fresh variable + one conjunct binding logica_value'],
          pre_inline, post_inline),
  Monitor(RT + ':DisambiguateCombineVariables', ['C02', 'C07', 'C08'],
          ['variables first mentioned in different combines get distinct names',
           'disambiguated names are unique across the compilation'], pre_disambiguate, post_disambiguate),
  Monitor(RT + ':ExtractRuleStructure', ['C02', 'C19'],
          ['aggregation implies distinct', 'distinct_vars = sorted(select keys - aggregated)'], None, post_extract),
  Monitor('compiler.functors:Functors.MakeAll', ['C04'], ['(records the pending @Make targets)'], pre_make_all, None),
  Monitor('compiler.functors:Functors.CallFunctor', ['C04', 'C03'],
          ['a predicate is made only after its applicant, the applicant\'s transitive arguments and all bound values'],
          pre_call_functor, None),
  Monitor(UN + ':SubqueryTranslator.TranslateTable', ['C08', 'C14'],
          ['alias / ground / WITH / inline / data dispatch'], pre_translate_table, post_translate_table),
]
