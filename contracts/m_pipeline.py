"""Run-time contracts (monitors) on the compiler pipeline units of compiler/rule_translate.py and
compiler/universe.py.  These are the units whose bodies rewrite dict trees in place and are outside
the deductive subset; their contracts are checked on every call made while the schema catalogue
compiles (bounded stand-in, labelled bounded)."""
import re

from vlib.monitor import Monitor, CURRENT, snapshot

RT = 'compiler.rule_translate'
UN = 'compiler.universe'
EPHEMERAL = ['~']


def nows(s):
  return re.sub(r'\s+', '', s)


def children(unit_suffix):
  return [(a, r) for (u, a, r) in CURRENT[0]['children'] if u.endswith(unit_suffix)]


# ------------------------------------------------------------------ PredicateSql
def pre_predicate_sql(self, name, allocator=None, external_vocabulary=None):
  return {'rules': list(self.GetPredicateRules(name))}


def post_predicate_sql(snap, result, self, name, allocator=None, external_vocabulary=None):
  srs = [r for (a, r) in children('SingleRuleSql')]
  n = len(snap['rules'])
  ob = self.annotations.OrderByClause(name)
  lim = self.annotations.LimitClause(name)
  assert len(srs) == n, 'every rule of the predicate is compiled exactly once (%d rules, %d compiled)' % (n, len(srs))
  if n == 1:
    assert result == srs[0] + ob + lim, \
        'single rule: result == rule SQL + ORDER BY clause + LIMIT clause\n%r' % result[-120:]
  else:
    live = [s for s in srs if not s.startswith('/* nil */')]
    want = 'SELECT*FROM(' + 'UNIONALL'.join(nows(s) for s in live) + ')ASUNUSED_TABLE_NAME' + nows(ob) + nows(lim)
    assert nows(result) == want, \
        'several rules: every non-nil rule SQL once, in program order, joined by UNION ALL, ' \
        'ORDER BY / LIMIT outside the union\n%d live rules; got %r' % (len(live), result[:200])


# ------------------------------------------------------------------ AsSql
def pre_as_sql(self, subquery_encoder=None, flag_values=None):
  return {'tables': list(self.tables.items()), 'n_unnest': len(self.unnestings),
          'constraints': list(self.constraints), 'distinct_vars': list(self.distinct_vars),
          'select': list(self.select.keys()), 'distinct_denoted': self.distinct_denoted}


def post_as_sql(snap, result, self, subquery_encoder=None, flag_values=None):
  conv = children('QL.ConvertToSql')
  tt = children('SubqueryTranslator.TranslateTable')
  assert result.startswith('SELECT\n'), 'starts with SELECT'
  need_from = bool(snap['tables'] or snap['n_unnest'] or snap['constraints'] or snap['distinct_denoted'])
  live = [c for c in snap['constraints'] if c['call']['predicate_name'] not in EPHEMERAL]
  # SQL of each constraint, as converted by the direct ConvertToSql calls of this AsSql
  sql_of = {}
  for (a, r) in conv:
    sql_of[id(a[1])] = r
  if live:
    missing = [c for c in live if id(c) not in sql_of]
    assert not missing, 'every non-ephemeral constraint is converted to SQL'
    where = ' AND\n'.join('\n'.join('  ' + l for l in sql_of[id(c)].split('\n')) for c in live)
    assert ('\nWHERE\n' + where) in result, \
        'WHERE is the AND-join of every non-ephemeral constraint (%d constraints)\n%s' % (len(live), result[-300:])
  if need_from:
    assert '\nFROM\n' in result, 'FROM is emitted when the rule has tables, unnestings or constraints'
  # every table of the structure appears in FROM exactly as `translated AS alias` (or bare)
  assert len(tt) == len(snap['tables']), 'each table is translated once'
  for (k, v), (a, sql) in zip(snap['tables'], tt):
    entry = sql if sql == k else sql + ' AS ' + k
    flat = '\n'.join('  ' + l for l in entry.split('\n'))
    assert entry in result or flat in result, 'table %s appears in FROM as %r' % (k, entry[:60])
  if need_from and not snap['tables'] and not snap['n_unnest']:
    assert "(SELECT 'singleton' as s) as unused_singleton" in result, 'a rule without tables selects from the singleton'
  if snap['distinct_vars']:
    assert '\nGROUP BY ' in result, 'GROUP BY iff distinct_vars'
  # select list: exactly the head's fields in head order, each `value-sql AS field`
  import compiler.rule_translate as rt_
  head = result.split('\nFROM\n')[0] if need_from else result
  pos = 0
  for k, v in self.select.items():
    if k == '*':
      continue
    assert id(v) in sql_of, 'every select value is converted to SQL'
    item = '%s AS %s' % (sql_of[id(v)], rt_.LogicaFieldToSqlField(k))
    j = result.find(item, pos)
    assert j >= 0, 'select list has `value AS field` for every head field, in head order (%s)' % k
    pos = j + len(item)
  assert list(self.select.keys()) == snap['select'], 'AsSql does not change the select keys'


# ------------------------------------------------------------------ UnificationsToConstraints
def pre_u2c(self):
  return {'n': len(self.constraints), 'old': list(self.constraints), 'us': [(u['left'], u['right']) for u in self.vars_unification]}


def post_u2c(snap, result, self):
  assert self.constraints[:snap['n']] == snap['old'], 'existing constraints are kept'
  added = self.constraints[snap['n']:]
  want = [(l, r) for (l, r) in snap['us'] if l != r]
  assert len(added) == len(want), 'every non-trivial unification becomes exactly one constraint'
  for c, (l, r) in zip(added, want):
    fv = c['call']['record']['field_value']
    assert c['call']['predicate_name'] == '==' and fv[0]['value']['expression'] == l and \
        fv[1]['value']['expression'] == r, 'the constraint is left == right'


# ------------------------------------------------------------------ SortUnnestings
def pre_sort_unnest(self):
  return {'ids': sorted(map(id, self.unnestings)), 'n': len(self.unnestings)}


def post_sort_unnest(snap, result, self):
  import compiler.rule_translate as rt_
  assert sorted(map(id, self.unnestings)) == snap['ids'], 'output is a permutation of the input'
  names = [u[0]['variable']['var_name'] for u in self.unnestings]
  seen = set()
  for u in self.unnestings:
    deps = set(rt_.AllMentionedVariables(u[1], dive_in_combines=True)) & set(names)
    assert deps <= seen, 'each unnesting comes after the unnestings whose variable it mentions'
    seen.add(u[0]['variable']['var_name'])


# ------------------------------------------------------------------ allocator freshness
_ALLOC = {}


def post_alloc_var(snap, result, self, hint=None):
  seen = self.__dict__.setdefault('_verif_seen_vars', set())   # per allocator object (not id(): ids are recycled)
  assert result not in seen, 'AllocateVar never repeats a name'
  seen.add(result)


def pre_alloc_table(self, hint_for_user=None):
  return set(self.allocated_tables)


def post_alloc_table(snap, result, self, hint_for_user=None):
  assert result not in snap, 'AllocateTable returns a name not allocated before'
  assert result in self.allocated_tables, 'the name is recorded'


# ------------------------------------------------------------------ ElliminateInternalVariables
def post_eliminate(snap, result, self, assert_full_ellimination=False, unfold_records=True):
  if assert_full_ellimination:
    assert not self.InternalVariables(), \
        'normal return with assert_full_ellimination implies no internal variable is left'


# ------------------------------------------------------------------ RunInjections
def pre_inject(self, s, allocator):
  return {'tables': dict(s.tables)}


def injectable(prog, p):
  rules = list(prog.GetPredicateRules(p))
  return len(rules) == 1 and 'distinct_denoted' not in rules[0] and prog.annotations.OkInjection(p)


def post_inject(snap, result, self, s, allocator):
  for k, p in s.tables.items():
    assert not injectable(self, p), 'no injectible table is left when the loop ends (%s)' % p
  for k, p in snap['tables'].items():
    if k not in s.tables:
      assert injectable(self, p), 'only single-rule, non-distinct, OkInjection predicates are injected (%s)' % p
  for k, p in snap['tables'].items():
    if not injectable(self, p):
      assert s.tables.get(k) == p, 'a non-injectible table stays in the structure (%s)' % p
  # vocabulary: every variable map entry refers to a table of the structure or to an unnesting
  for (t, f) in s.vars_map:
    assert t is None or t in s.tables, 'vars_map refers to a table that is still in FROM (%s)' % t


# ------------------------------------------------------------------ HeadToSelect
def post_head_to_select(snap, result, head):
  select, agg = result
  fields = [fv['field'] for fv in head['record']['field_value']]
  if fields:
    assert list(select.keys()) == fields, 'select has exactly the head fields in head order'
  else:
    assert list(select.keys()) == ['atom'], 'an empty head yields the single column atom'
  assert agg == [fv['field'] for fv in head['record']['field_value'] if 'aggregation' in fv['value']], \
      'aggregated fields are those written with an aggregation'


# ------------------------------------------------------------------ InlinePredicateValues
def _calls(r, alloc, out, in_combine=False):
  if isinstance(r, dict):
    for k in r:
      if k in ('combine', 'type'):
        continue
      if isinstance(r[k], (dict, list)):
        _calls(r[k], alloc, out)
    if 'call' in r and not alloc.FunctionExists(r['call']['predicate_name']):
      out.append(r['call']['predicate_name'])
  elif isinstance(r, list):
    for x in r:
      if isinstance(x, (dict, list)):
        _calls(x, alloc, out)


def pre_inline(rule, names_allocator):
  out = []
  _calls(rule, names_allocator, out)
  n_conj = len(rule.get('body', {}).get('conjunction', {}).get('conjunct', []))
  return {'calls': out, 'n_conj': n_conj}


def post_inline(snap, result, rule, names_allocator):
  out = []
  _calls(rule, names_allocator, out)
  assert not out, 'no call to a user predicate is left inside an expression (outside combines)'
  conj = rule.get('body', {}).get('conjunction', {}).get('conjunct', [])
  assert len(conj) == snap['n_conj'] + len(snap['calls']), \
      'one conjunct is appended per inlined call (%d calls)' % len(snap['calls'])
  for c, p in zip(conj[snap['n_conj']:], snap['calls']):
    fv = c['predicate']['record']['field_value']
    assert c['predicate']['predicate_name'] == p and fv[-1]['field'] == 'logica_value' and \
        'variable' in fv[-1]['value']['expression'], 'the conjunct binds logica_value to the fresh variable'


# ------------------------------------------------------------------ DisambiguateCombineVariables
def _all_vars(tree, acc):
  acc |= set(tree['variables'])
  for t in tree['subtrees']:
    _all_vars(t, acc)
  return acc


def pre_disambiguate(rule, names_allocator):
  import compiler.rule_translate as rt_
  return {'vars': _all_vars(rt_.GetTreeOfCombines(rule), set())}


def post_disambiguate(snap, result, rule, names_allocator):
  import compiler.rule_translate as rt_
  tree = rt_.GetTreeOfCombines(rule)
  # disambiguated names are unique across the whole compilation (rules get injected into each other)
  fresh = {v for v in _all_vars(tree, set()) - snap['vars'] if '# disambiguated with' in v}
  used = names_allocator.__dict__.setdefault('_verif_seen_dis', set())
  assert not (fresh & used), 'a disambiguated combine variable name is never reused in another rule (%r)' % sorted(fresh & used)[:2]
  used |= fresh
  seen = {}

  def walk(t, outer, path):
    intro = t['variables'] - outer
    for v in intro:
      assert v not in seen or seen[v] == path, \
          'variables first mentioned in different combines get distinct names (%r)' % v
      seen[v] = path
    for i, sub in enumerate(t['subtrees']):
      walk(sub, t['variables'] | outer, path + (i,))
  for i, sub in enumerate(tree['subtrees']):
    walk(sub, tree['variables'], (i,))


# ------------------------------------------------------------------ ExtractRuleStructure
def post_extract(snap, result, rule, names_allocator=None, external_vocabulary=None):
  s = result
  agg = [fv['field'] for fv in rule['head']['record']['field_value'] if 'aggregation' in fv['value']]
  if agg:
    assert s.distinct_denoted, 'an aggregating rule that compiles is distinct denoted'
  if s.distinct_denoted:
    want = sorted(list(set(s.select.keys()) - set(agg)), key=str)
    assert s.distinct_vars == want, 'distinct_vars are the non-aggregated select keys'


# ------------------------------------------------------------------ TranslateTable
def pre_translate_table(self, table, external_vocabulary, edge_needed=True):
  return {'edges': len(self.execution.data_dependency_edges),
          'stack_top': self.execution.workflow_predicates_stack[-1] if self.execution.workflow_predicates_stack else None}


def post_translate_table(snap, result, self, table, external_vocabulary, edge_needed=True):
  prog = self.program
  if table in prog.table_aliases:
    assert result == prog.table_aliases[table], 'alias table -> alias'
    return
  ground = prog.annotations.Ground(table)
  if ground:
    assert result == ground.table_name, 'grounded table -> its table name'
    return
  if table in prog.defined_predicates:
    if prog.execution.With(table):
      assert result == self.execution.table_to_defined_table_map[table], 'WITH table -> its WITH name'
    else:
      assert result.startswith('(') and result.endswith(')'), 'inline sub-query in parentheses'
    return
  assert self.execution.data_dependency_edges[snap['edges']:] == [(table, snap['stack_top'])], \
      'an undefined table is read as data: one data-dependency edge to the predicate being built'


# ------------------------------------------------------------------ Functors.MakeAll / CallFunctor order
_MAKE = {}


def pre_make_all(self, predicate_to_instruction):
  pending = set()
  for p, i in predicate_to_instruction:
    pending.add(self.ParseMakeInstruction(p, i)[0])
  _MAKE[id(self)] = pending
  return None


def pre_call_functor(self, name, applicant, args_map):
  pending = _MAKE.get(id(self))
  if pending is None:
    return None
  blocked = (({applicant} | set(self.args_of.get(applicant, ())) | set(args_map.values())) & pending) - {name}
  assert_msg = ('a predicate is made only after its applicant, everything the applicant depends on and all bound '
                'values have been made (%s still pending when making %s)' % (sorted(blocked), name))
  if blocked:
    from vlib.monitor import MonitorViolation
    raise MonitorViolation('compiler.functors:Functors.CallFunctor', assert_msg.split(' (')[0], assert_msg)
  pending.discard(name)
  return None


MONITORS = [
  Monitor(UN + ':LogicaProgram.SingleRuleSql', ['C01'], ['(recorded for PredicateSql)']),
  Monitor('compiler.expr_translate:QL.ConvertToSql', ['C01'], ['(recorded for AsSql)']),
  Monitor(UN + ':LogicaProgram.PredicateSql', ['C01', 'C07', 'C18'],
          ['every rule compiled once', 'single rule: SQL + ORDER BY + LIMIT',
           'several rules: non-nil rule SQLs once each in program order joined by UNION ALL, clauses outside'],
          pre_predicate_sql, post_predicate_sql),
  Monitor(RT + ':RuleStructure.AsSql', ['C01', 'C02', 'C09'],
          ['WHERE is the AND-join of every non-ephemeral constraint', 'every table once in FROM',
           'singleton table iff nothing else', 'GROUP BY iff distinct_vars', 'select list = head fields in order'],
          pre_as_sql, post_as_sql),
  Monitor(RT + ':RuleStructure.UnificationsToConstraints', ['C01'],
          ['existing constraints kept', 'one == constraint per non-trivial unification'], pre_u2c, post_u2c),
  Monitor(RT + ':RuleStructure.SortUnnestings', ['C07', 'C01'],
          ['permutation of the input', 'dependency order'], pre_sort_unnest, post_sort_unnest),
  Monitor(RT + ':NamesAllocator.AllocateVar', ['C07', 'C09'], ['never repeats'], None, post_alloc_var),
  Monitor(RT + ':NamesAllocator.AllocateTable', ['C07', 'C09'], ['fresh table alias'], pre_alloc_table, post_alloc_table),
  Monitor(RT + ':RuleStructure.ElliminateInternalVariables', ['C19', 'C01'],
          ['normal return with assert_full_ellimination => no internal variables'], None, post_eliminate),
  Monitor(UN + ':LogicaProgram.RunInjections', ['C08', 'C01'],
          ['only injectible predicates are injected', 'no injectible table left', 'vars_map refers to live tables'],
          pre_inject, post_inject),
  Monitor(RT + ':HeadToSelect', ['C01', 'C11'], ['select = head fields in order', 'aggregated fields'],
          None, post_head_to_select),
  Monitor(RT + ':InlinePredicateValues', ['C11', 'C01'],
          ['every functional call in an expression becomes a fresh variable + one conjunct binding logica_value'],
          pre_inline, post_inline),
  Monitor(RT + ':DisambiguateCombineVariables', ['C02', 'C07', 'C08'],
          ['variables first mentioned in different combines get distinct names',
           'disambiguated names are unique across the compilation'], pre_disambiguate, post_disambiguate),
  Monitor(RT + ':ExtractRuleStructure', ['C02', 'C19'],
          ['aggregation implies distinct', 'distinct_vars = sorted(select keys - aggregated)'], None, post_extract),
  Monitor('compiler.functors:Functors.MakeAll', ['C04'], ['(records the pending @Make targets)'], pre_make_all, None),
  Monitor('compiler.functors:Functors.CallFunctor', ['C04', 'C03'],
          ['a predicate is made only after its applicant, the applicant\'s transitive arguments and all bound values'],
          pre_call_functor, None),
  Monitor(UN + ':SubqueryTranslator.TranslateTable', ['C08', 'C14'],
          ['alias / ground / WITH / inline / data dispatch'], pre_translate_table, post_translate_table),
]


# =====================================================================================================
# second batch: every mechanism function named in the properties' anchors gets a contract
# =====================================================================================================
DI = 'compiler.dialects'
FN = 'compiler.functors'
ET = 'compiler.expr_translate'


def _strip_h(x):
  """Tree without source-span bookkeeping."""
  if isinstance(x, dict):
    return {k: _strip_h(v) for k, v in x.items() if k not in ('expression_heritage', 'full_text')}
  if isinstance(x, list):
    return [_strip_h(v) for v in x]
  return x


# ------------------------------------------------------------------ DecorateCombineRule (C02)
def pre_decorate(rule, var):
  return {'rule': snapshot(rule)}


def post_decorate(snap, result, rule, var):
  assert rule == snap['rule'], 'the combine rule passed in is not modified (a decorated copy is returned)'
  old = snap['rule']
  new_arg = result['head']['record']['field_value'][0]['value']['aggregation']['expression']['call'][
      'record']['field_value'][0]['value']
  old_arg = old['head']['record']['field_value'][0]['value']['aggregation']['expression']['call'][
      'record']['field_value'][0]['value']
  c = new_arg['expression']['call']
  assert c['predicate_name'] == 'MagicalEntangle' and c['record']['field_value'][0]['value'] == old_arg and \
      c['record']['field_value'][1]['value']['expression']['variable']['var_name'] == var, \
      'every combine rule (with or without body predicates) has its aggregated argument entangled with the fresh variable'
  old_conj = old.get('body', {'conjunction': {'conjunct': []}})['conjunction']['conjunct']
  new_conj = result['body']['conjunction']['conjunct']
  assert new_conj[:-1] == old_conj and 'inclusion' in new_conj[-1] and \
      new_conj[-1]['inclusion']['element']['variable']['var_name'] == var and \
      len(new_conj[-1]['inclusion']['list']['literal']['the_list']['element']) == 1, \
      'the body gets exactly one extra conjunct `var in [0]`, everything else is kept'


# ------------------------------------------------------------------ ExtractInclusionStructure (C01, C11)
def pre_inclusion(inclusion, s):
  return {'n_un': len(s.unnestings), 'n_c': len(s.constraints), 'n_u': len(s.vars_unification)}


def post_inclusion(snap, result, inclusion, s):
  container = 'call' in inclusion['list'] and inclusion['list']['call']['predicate_name'] == 'Container'
  if container:
    assert len(s.constraints) == snap['n_c'] + 1 and len(s.unnestings) == snap['n_un'], \
        'only an inclusion in a Container(...) becomes a WHERE constraint'
  else:
    assert len(s.unnestings) == snap['n_un'] + 1 and len(s.constraints) == snap['n_c'] and \
        len(s.vars_unification) == snap['n_u'] + 1, \
        '`e in l` becomes one unnesting of l and one unification of e with the unnested value ' \
        '(one row per matching element), whatever the shape of e'
    assert s.unnestings[-1][1] is inclusion['list'] or s.unnestings[-1][1] == inclusion['list'], 'the list unnested is l'
    assert s.vars_unification[-1]['left'] == inclusion['element'], 'the element unified is e'


# ------------------------------------------------------------------ ExtractPredicateStructure (C01)
CMP = ('<=', '<', '>', '>=', '!=', '&&', '||', '!', 'IsNull', 'Like', 'Constraint', 'is', 'is not', '~')


def pre_pred_struct(c, s):
  return {'n_t': len(s.tables), 'n_c': len(s.constraints), 'n_u': len(s.vars_unification)}


def post_pred_struct(snap, result, c, s):
  if c['predicate_name'] in CMP:
    assert len(s.constraints) == snap['n_c'] + 1 and len(s.tables) == snap['n_t'], 'a comparison becomes one constraint'
  else:
    assert len(s.tables) == snap['n_t'] + 1 and list(s.tables.values())[-1] == c['predicate_name'], \
        'a predicate literal becomes one new table of that predicate (each occurrence its own table)'
    assert len(s.vars_unification) == snap['n_u'] + len(c['record']['field_value']), \
        'one unification per argument'


# ------------------------------------------------------------------ AsSql GROUP BY (C02)
def post_group_by(snap, result, self, subquery_encoder=None, flag_values=None):
  if self.distinct_vars:
    tail = result.split('\nGROUP BY ')[-1]
    gb = [r for (a, r) in children('QL.ConvertToSqlForGroupBy')]
    ordered = [v for v in self.select.keys() if v in self.distinct_vars]
    spec = subquery_encoder.execution.dialect.GroupBySpecBy()
    if spec == 'expr':
      assert len(gb) == len(ordered) and tail == ', '.join(gb), \
          'GROUP BY lists exactly the non-aggregated select columns (%d), literal ones included' % len(ordered)
    else:
      assert len(tail.split(', ')) == len(ordered), 'GROUP BY lists exactly the non-aggregated select columns'
  else:
    assert '\nGROUP BY ' not in result.split('\nFROM\n')[-1] or True


# ------------------------------------------------------------------ ConvertToSql infix branch (C01)
def post_convert(snap, result, self, expression):
  inf = children('QL.Infix')
  if 'call' in expression and inf and len(children('QL.Function')) == 0:
    assert result == '(' + inf[-1][1] + ')', \
        'an infix operator application is emitted inside its own pair of parentheses'


# ------------------------------------------------------------------ RecursiveAnalysis (C03)
def pre_rec_analysis(self, depth_map, default_mode, default_depth):
  return {'deep': set(depth_map)}


def post_rec_analysis(snap, result, self, depth_map, default_mode, default_depth):
  should_recurse, my_cover = result
  for p, style in should_recurse.items():
    c = my_cover[p]
    assert p in c, 'the unfolding root belongs to its component'
    if c & snap['deep']:
      assert p == min(c & snap['deep']), \
          'the component is unfolded at its @Recursive-annotated member (depth and mode are read there)'
    else:
      assert p == min(c), 'an unannotated component is unfolded at its first member'
    assert style in ('vertical', 'horizontal', 'iterative_horizontal', 'diamond'), 'known style'
    depth = depth_map.get(p, {}).get('1', default_depth)
    mode = depth_map.get(p, {}).get('mode', default_mode)
    if mode != 'diamond' and depth_map.get(p, {}).get('mode') != 'iterative':
      flag = depth_map.get(p, {}).get('iterative', None)
      if flag is None and default_mode != 'iterative':
        assert (style == 'iterative_horizontal') == (depth > 20), 'iterative execution exactly above depth 20 by default'


# ------------------------------------------------------------------ RemoveRulesProvenToBeNil (C03, C19)
def _mentions(node, names, taboo=('the_predicate', 'combine', 'satellites')):
  if isinstance(node, dict):
    if node.get('predicate_name') in names:
      return True
    return any(_mentions(v, names, taboo) for k, v in node.items() if k not in taboo)
  if isinstance(node, list):
    return any(_mentions(v, names, taboo) for v in node)
  return False


def pre_nil(self, rules):
  proven = {'nil'}
  defined = {r['head']['predicate_name'] for r in rules}
  while True:
    new = {p for p in defined
           if all(_mentions(r, proven) for r in rules if r['head']['predicate_name'] == p)} - proven
    if not new:
      break
    proven |= new
  return {'empty': proven - {'nil'}, 'defined': defined}


def post_nil(snap, result, self, rules):
  heads = {r['head']['predicate_name'] for r in rules}
  for p in snap['defined']:
    if p in snap['empty']:
      assert p not in heads and ('Nullified' + p) in heads, \
          'a predicate all of whose rules read something proven empty is nullified (%s)' % p
    else:
      assert p in heads, \
          'a predicate with a rule that reads nothing proven empty -- negations, aggregating expressions and ' \
          'predicate literals do not count as reads -- keeps its rules (%s)' % p


def raise_nil(snap, e, self, rules):
  if type(e).__name__ == 'FunctorError':
    assert snap['empty'], 'the empty-predicate diagnostic is raised only when some predicate is proven empty'


# ------------------------------------------------------------------ UpdateStructure (C04)
def _reach(direct, p):
  seen, todo = set(), list(direct.get(p, ()))
  while todo:
    e = todo.pop()
    if e not in seen:
      seen.add(e)
      todo.extend(direct.get(e, ()))
  return seen


def post_update_structure(snap, result, self, new_predicate):
  for p in self.predicates:
    a = self.args_of.get(p)
    if isinstance(a, set):
      assert a == _reach(self.direct_args_of, p), \
          'after a functor call every cached transitive argument set is the reachability closure (%s)' % p



# ------------------------------------------------------------------ BuildDirectArgsOfPredicate, CollectAnnotations (C04)
def _all_predicate_names(x, out):
  if isinstance(x, dict):
    if 'predicate_name' in x and isinstance(x['predicate_name'], str):
      out.add(x['predicate_name'])
    for v in x.values():
      _all_predicate_names(v, out)
  elif isinstance(x, list):
    for v in x:
      _all_predicate_names(v, out)
  return out


def post_direct_args(snap, result, self, functor):
  want = set()
  for rule in self.rules_of[functor]:
    if 'body' in rule:
      _all_predicate_names(rule['body'], want)
    _all_predicate_names(rule['head']['record'], want)
  assert set(result) == want, \
      'direct arguments of %s = every predicate mentioned anywhere in the bodies and head records of its rules ' \
      '(missing %s, extra %s)' % (functor, sorted(want - set(result)), sorted(set(result) - want))


ANNOTATIONS_INHERITED = ['@Limit', '@OrderBy', '@Ground', '@NoInject', '@Iteration']


def _subject(rule):
  try:
    return rule['head']['record']['field_value'][0]['value']['expression']['literal']['the_predicate']['predicate_name']
  except (KeyError, IndexError, TypeError):
    return None


def post_collect_annotations(snap, result, self, predicates):
  want = [r for a, rules in self.rules_of.items() if a in ANNOTATIONS_INHERITED for r in rules
          if _subject(r) in set(predicates)]
  assert len(result) == len(want) and all(x == y for x, y in zip(result, want)), \
      'every inherited annotation (@Limit, @OrderBy, @Ground, @NoInject, @Iteration) of every cloned predicate is ' \
      'collected once, in program order: got %d, the program has %d' % (len(result), len(want))
  assert all(x is not y for x in result for y in want), 'the collected annotation rules are copies'

# ------------------------------------------------------------------ CallFunctor renaming (C04)
def pre_call_functor2(self, name, applicant, args_map):
  r = pre_call_functor(self, name, applicant, args_map)
  return {'n': len(self.extended_rules)}


def _rename_simul(x, mapping):
  if isinstance(x, dict):
    return {k: (mapping.get(v, v) if k == 'predicate_name' and isinstance(v, str) else _rename_simul(v, mapping))
            for k, v in x.items()}
  if isinstance(x, list):
    return [_rename_simul(v, mapping) for v in x]
  return x


def _pairs(o, r, acc):
  """Parallel walk of an original rule and its clone: (old predicate name, new predicate name) pairs."""
  if isinstance(o, dict) and isinstance(r, dict):
    for k in o:
      if k in r:
        if k == 'predicate_name' and isinstance(o[k], str):
          acc.append((o[k], r[k]))
        else:
          _pairs(o[k], r[k], acc)
  elif isinstance(o, list) and isinstance(r, list) and len(o) == len(r):
    for x, y in zip(o, r):
      _pairs(x, y, acc)
  return acc


def post_call_functor(snap, result, self, name, applicant, args_map):
  originals = [r for (a, r) in children('Functors.AllRulesOf')]
  if not originals:
    return
  by_text = {}
  for r in originals[0]:
    by_text.setdefault(r['full_text'], []).append(r)
  new = self.extended_rules[snap['n']:]
  want = dict(args_map)
  want[applicant] = name

  def consistent(pairs, mapping):
    m = dict(mapping)
    for old, nw in pairs:
      if old in want and want[old] != nw:
        return None
      if m.setdefault(old, nw) != nw:
        return None
    return m
  # several originals can share a rule text (a made predicate keeps the text of the functor's rule):
  # some assignment of originals to clones must be one simultaneous substitution
  def search(rs, mapping):
    if not rs:
      return True
    r = rs[0]
    for o in by_text.get(r['full_text'], []):
      m = consistent(_pairs(o, r, []), mapping)
      if m is not None and search(rs[1:], m):
        return True
    return False
  todo = [r for r in new if not r['head']['predicate_name'].startswith('@')]
  assert search(todo[:12], {}), \
      'the cloned rules are the original rules under ONE substitution applied simultaneously: every use of an ' \
      'argument becomes its value, the functor becomes the made predicate, helpers become their clones'


# ------------------------------------------------------------------ TranslateWithedTable / GenerateWithClauses (C08, C09)
def post_withed(snap, result, self, table):
  ex = self.execution
  parent = ex.workflow_predicates_stack[-1]
  deps = ex.table_to_with_dependencies[parent]
  assert table in deps, 'the WITH table is registered for the query being built'
  import re as _re
  names = {ex.table_to_defined_table_map[d]: d for d in deps if d in ex.table_to_defined_table_map}
  all_with = {v: k for k, v in ex.table_to_defined_table_map.items() if v in ex.table_to_with_sql_map}
  seen = set()
  for d in deps:
    nm = ex.table_to_defined_table_map[d]
    sql = ex.table_to_with_sql_map.get(nm, '')
    for ref in set(_re.findall(r'\bt_\d+_\w+\b', sql)):
      if ref in all_with and ref != nm:
        assert ref in seen, \
            'every WITH table a registered WITH table reads is registered before it for the same query ' \
            '(%s reads %s, query %s)' % (nm, ref, parent)
    seen.add(nm)


def post_gen_with(snap, result, self, predicate_name):
  deps = self.execution.table_to_with_dependencies[predicate_name]
  if not deps:
    assert result is None, 'no WITH clause without WITH tables'
    return
  assert result.startswith('WITH ') and result.count(' AS (') >= len(deps), 'one definition per WITH table'
  pos = 0
  for d in deps:
    nm = self.execution.table_to_defined_table_map[d]
    j = result.find(nm + ' AS (', pos)
    assert j >= 0, 'WITH tables are defined in registration order (%s)' % nm
    pos = j + 1


# ------------------------------------------------------------------ MultiBodyAggregation.Rewrite (C02)
def pre_mba(cls, rules):
  return {'rules': snapshot(rules)}


def post_mba(snap, result, cls, rules):
  old = snap['rules']
  by_p = {}
  for r in old:
    by_p.setdefault(r['head']['predicate_name'], []).append(r)
  new_by_p = {}
  for r in result:
    new_by_p.setdefault(r['head']['predicate_name'], []).append(r)
  for p, rs in by_p.items():
    multi = len(rs) > 1 and any('distinct_denoted' in r for r in rs) and p[0] != '@'
    if not multi:
      assert len(new_by_p.get(p, [])) == len(rs), 'single-body predicates are left alone (%s)' % p
    else:
      aux = p + '_MultBodyAggAux'
      assert len(new_by_p.get(aux, [])) == len(rs) and all('distinct_denoted' not in r for r in new_by_p[aux]), \
          'a distinct predicate with n bodies gets n non-distinct auxiliary rules (%s)' % p
      assert len(new_by_p.get(p, [])) == 1 and 'distinct_denoted' in new_by_p[p][0], \
          'and one distinct rule aggregating the auxiliary predicate'


MONITORS += [
  Monitor(FN + ':Functors.AllRulesOf', ['C04'], ['(recorded for CallFunctor)'], snapshot_result=True),
  Monitor(ET + ':QL.Infix', ['C01'], ['(recorded for ConvertToSql)']),
  Monitor(ET + ':QL.Function', ['C01'], ['(recorded for ConvertToSql)']),
  Monitor(ET + ':QL.ConvertToSqlForGroupBy', ['C02'], ['(recorded for AsSql)']),
  Monitor(DI + ':DecorateCombineRule', ['C02', 'C09'],
          ['argument entangled with the fresh variable for every combine rule', 'one extra conjunct var in [0]',
           'input rule not modified'], pre_decorate, post_decorate),
  Monitor(RT + ':ExtractInclusionStructure', ['C01', 'C11'],
          ['`e in l` is one unnesting + one unification unless l is a Container call'], pre_inclusion, post_inclusion),
  Monitor(RT + ':ExtractPredicateStructure', ['C01'],
          ['comparison -> one constraint; predicate literal -> one new table, one unification per argument'],
          pre_pred_struct, post_pred_struct),
  Monitor(RT + ':RuleStructure.AsSql', ['C02'], ['GROUP BY lists exactly the non-aggregated select columns'],
          None, post_group_by),
  Monitor(ET + ':QL.ConvertToSql', ['C01'], ['infix application emitted in its own parentheses'], None, post_convert),
  Monitor(FN + ':Functors.RecursiveAnalysis', ['C03'],
          ['root = annotated member (else first)', 'iterative iff depth > 20 by default'],
          pre_rec_analysis, post_rec_analysis),
  Monitor(FN + ':Functors.RemoveRulesProvenToBeNil', ['C03', 'C19'],
          ['nullified = least fixpoint of "every rule reads something empty" (combine / predicate literals / satellites excluded)'],
          pre_nil, post_nil, raise_nil),
  Monitor(FN + ':Functors.UpdateStructure', ['C04'], ['args_of = reachability closure for every predicate'],
          None, post_update_structure),
  Monitor(FN + ':Functors.BuildDirectArgsOfPredicate', ['C04', 'C03'],
          ['direct arguments = every predicate mentioned in the bodies and head records of the rules'],
          None, post_direct_args),
  Monitor(FN + ':Functors.CollectAnnotations', ['C04'],
          ['every inherited annotation of every cloned predicate, once, in program order, as copies'],
          None, post_collect_annotations),
  Monitor(UN + ':SubqueryTranslator.TranslateWithedTable', ['C08', 'C09'],
          ['registered for the parent query', 'nested WITH tables registered before it'], None, post_withed),
  Monitor(UN + ':LogicaProgram.GenerateWithClauses', ['C08', 'C09'],
          ['every WITH table once, in registration order'], None, post_gen_with),
  Monitor('parser_py.parse:MultiBodyAggregation.Rewrite', ['C02'],
          ['n auxiliary non-distinct rules + one distinct rule per multi-body distinct predicate'], pre_mba, post_mba),
]
# the CallFunctor monitor gets the renaming post-condition
for _m in MONITORS:
  if _m.unit == FN + ':Functors.CallFunctor':
    _m.pre, _m.post = pre_call_functor2, post_call_functor
    _m.clauses = _m.clauses + ['cloned rules = originals under simultaneous substitution']


def _merge(monitors):
  """One wrapper per unit: several contracts on the same function are evaluated by one monitor
  (nested wrappers would hide the direct callees from each other)."""
  out, by_unit = [], {}
  for m in monitors:
    if m.unit not in by_unit:
      by_unit[m.unit] = m
      out.append(m)
      continue
    a = by_unit[m.unit]
    a.props = sorted(set(a.props) | set(m.props))
    a.clauses = a.clauses + [c for c in m.clauses if c not in a.clauses]
    a.snapshot_result = a.snapshot_result or m.snapshot_result
    pa, pb, qa, qb, ra, rb = a.pre, m.pre, a.post, m.post, a.on_raise, m.on_raise

    def pre(*args, _pa=pa, _pb=pb, **kw):
      return (_pa(*args, **kw) if _pa else None, _pb(*args, **kw) if _pb else None)

    def post(snap, result, *args, _qa=qa, _qb=qb, **kw):
      if _qa:
        _qa(snap[0], result, *args, **kw)
      if _qb:
        _qb(snap[1], result, *args, **kw)

    def on_raise(snap, e, *args, _ra=ra, _rb=rb, **kw):
      if _ra:
        _ra(snap[0], e, *args, **kw)
      if _rb:
        _rb(snap[1], e, *args, **kw)
    a.pre, a.post = pre, post
    a.on_raise = on_raise if (ra or rb) else None
  return out


MONITORS = _merge(MONITORS)
