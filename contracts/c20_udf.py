"""C20 / C02 — SQLite UDFs of common/sqlite3_logica.py.

Bounded stand-ins (native contract execution on the real classes over every short history of
step() calls); the deductive treatment of ArgMin/ArgMax is in c02_argmin.py when present."""
import itertools
import json
from vlib.units import unit

F = 'common/sqlite3_logica.py'


def histories(tier):
  vals = [0, 1, 2, 3] if tier == 'quick' else [0, 1, 2, 3, 4]
  n = 4 if tier == 'quick' else 5
  for k in range(0, n + 1):
    for vs in itertools.permutations(vals, k):       # distinct values: no ties
      yield [(v, 'a%d' % v) for v in vs]


def gen_arg(cls_name):
  def gen(tier, mod):
    cls = getattr(mod, cls_name)
    for h in histories(tier):
      for K in (None, 1, 2, 3):
        o = cls()
        for v, a in h:
          o.step(a, v, K)
        yield {'args': [], 'self': o, 'env': {'hist': h, 'K': K, 'json': json},
               'show': {'steps(value,arg)': h, 'limit': K}}
  return gen


def gen_arg_bad_limit(cls_name):
  def gen(tier, mod):
    cls = getattr(mod, cls_name)
    for K in (0, -1, 1, None, 2):
      for pre in ([], [(1, 'a')]):
        o = cls()
        for v, a in pre:
          o.step(a, v, 3)
        yield {'args': ['b', 5, K], 'self': o, 'show': {'before': pre, 'limit': K}}
  return gen


def gen_distinct(tier, mod):
  for k in range(0, 5):
    for xs in itertools.product([0, 1, 'a'], repeat=k):
      o = mod.DistinctListAgg()
      for x in xs:
        o.step(x)
      yield {'args': [], 'self': o, 'env': {'hist': list(xs), 'json': json}, 'show': list(xs)}


def gen_concat_agg(tier, mod):
  items = [None, '[]', '[1]', '[2, 3]', '["a"]']
  for k in range(0, 4):
    for xs in itertools.product(items, repeat=k):
      o = mod.ArrayConcatAgg()
      for x in xs:
        o.step(x)
      yield {'args': [], 'self': o, 'env': {'hist': list(xs), 'json': json}, 'show': list(xs)}


LISTS = ['[]', '[1]', '[2, 1]', '[3, 1, 2]', '["b", "a"]', '[1, 1]', '[0]', '[0, 1, 0]', '["a", "", "b"]', '[""]',
         '[false, true]']


def gen_fn1(tier, mod):
  for l in LISTS:
    yield {'args': [l], 'env': {'json': json}, 'show': l}


def gen_fn2_lists(tier, mod):
  for a in LISTS + [None]:
    for b in LISTS + [None]:
      yield {'args': [a, b], 'env': {'json': json}, 'show': [a, b]}


def gen_inlist(tier, mod):
  for l in LISTS:
    for x in (1, 2, 'a', 'z', 0):
      yield {'args': [x, l], 'env': {'json': json}, 'show': [x, l]}


def gen_join(tier, mod):
  for l in LISTS:
    for sep in ('', ',', '--'):
      yield {'args': [l, sep], 'env': {'json': json}, 'show': [l, sep]}


def gen_record(tier, mod):
  for kv in ([], [('a', 1)], [('a', 1), ('b', 'x')], [('b', [1, 2]), ('a', None)]):
    yield {'args': [json.dumps([{'arg': k, 'value': v} for k, v in kv])],
           'env': {'json': json, 'kv': kv}, 'show': kv}


JSON_CALLS = {'json.dumps': 'json.dumps!ext', 'json.loads': 'json.loads!ext'}
JSON_SPEC = {'json.loads': 'json.loads!ext'}

UNITS = [
  unit(F, 'ArgMin.finalize', props=['C20', 'C02', 'C07'], deductive=False, params=[],
       requires=[],
       # K best (smallest value first); a function of the multiset of stepped pairs (no ties)
       ensures=["json.loads(result) == [a for v, a in sorted(hist)][:K]"],
       native=gen_arg('ArgMin')),
  unit(F, 'ArgMax.finalize', props=['C20', 'C02', 'C07'], deductive=False, params=[],
       ensures=["json.loads(result) == [a for v, a in sorted(hist, reverse=True)][:K]"],
       native=gen_arg('ArgMax')),
  # step: with one K throughout, the kept list never exceeds K entries (so the internal 'ArgMin error'
  # branch is unreachable), grows by one while below K, and the only exceptions are the documented ones
] + [
  unit(F, '%s.step' % c, props=['C20', 'C02'], params=['arg', 'value', 'limit'],
       types={'arg': 'val', 'value': 'val', 'limit': 'opt[int]'},
       fields={'self.result': 'list[tuple[val,val]]'}, modifies=['self.result'], drop_calls=['print'],
       calls={'heapq._heapify_max': 'heapq.permute!ext', 'heapq.heapify': 'heapq.permute!ext',
              'heapq._heapreplace_max': 'heapq.replace!ext', 'heapq.heapreplace': 'heapq.replace!ext',
              'repr': 'repr!ext'},
       requires=["limit is None or limit <= 0 or len(self.result) <= limit"],
       ensures=["limit is None or len(self.result) <= limit",
                "implies(limit is None or len(old(self.result)) < limit, "
                "len(self.result) == len(old(self.result)) + 1)",
                "implies(limit is not None and len(old(self.result)) == limit, "
                "len(self.result) == len(old(self.result)))",
                # below K - 1 entries the pair is appended at the end, earlier entries untouched
                "implies(limit is None or len(old(self.result)) < limit - 1, "
                "self.result == old(self.result) + [(value, arg)])"],
       raises={'Exception': "(limit is not None and limit <= 0) or (len(self.result) > 0 and "
                            "DeFactoType(value) != DeFactoType(self.result[0][0]))"},
       native=gen_arg_bad_limit(c))
  for c in ('ArgMin', 'ArgMax')
] + [
  unit(F, 'DeFactoType', external=True, pure=True, params=['value'], types={'value': 'val'}, fields={},
       returns='str'),
  unit(F, 'repr!ext', external=True, pure=True, params=['value'], types={'value': 'val'}, fields={},
       returns='str'),
  # heapq (assumed): both operations keep the number of entries
  unit(F, 'heapq.permute!ext', external=True, params=['h'], types={'h': 'list[tuple[val,val]]'}, fields={},
       returns='none', modifies_args=['h'], ensures=["len(h) == len(old(h))"]),
  unit(F, 'heapq.replace!ext', external=True, params=['h', 'item'],
       types={'h': 'list[tuple[val,val]]', 'item': 'tuple[val,val]'}, fields={},
       returns='tuple[val,val]', modifies_args=['h'], ensures=["len(h) == len(old(h))"]),
  unit(F, 'DistinctListAgg.finalize', props=['C20', 'C02', 'C07'], deductive=False, params=[],
       ensures=["sorted(json.loads(result), key=repr) == sorted(set(hist), key=repr)"],
       native=gen_distinct),
  unit(F, 'ArrayConcatAgg.finalize', props=['C20', 'C02'], deductive=False, params=[],
       ensures=["json.loads(result) == [e for x in hist if x is not None for e in json.loads(x)]"],
       native=gen_concat_agg),
  # json is outside the verifier's reach: loads / dumps are uninterpreted, and the one law the arguments
  # need -- loads(dumps(x)) == x -- is the assumed postcondition of dumps at each call
  unit(F, 'json.loads!ext', external=True, pure=True, params=['s'], types={'s': 'str'}, fields={},
       returns='list[val]'),
  unit(F, 'json.dumps!ext', external=True, pure=True, params=['x'], types={'x': 'list[val]'}, fields={},
       returns='str', calls={'json.loads': 'json.loads!ext'}, ensures=["json.loads(result) == x"]),
  unit(F, 'LoadJson', external=True, pure=True, params=['s'], types={'s': 'str'}, fields={},
       returns='list[val]', calls={'json.loads': 'json.loads!ext'}, ensures=["result == json.loads(s)"]),
  unit(F, 'SortList', props=['C20'], params=['input_list_json'], types={'input_list_json': 'str'},
       returns='str', calls=JSON_CALLS, spec_calls=JSON_SPEC,
       ensures=["json.loads(result) == sorted(json.loads(input_list_json))"], native=gen_fn1),
  unit(F, 'InList', props=['C20'], params=['item', 'a_list'], types={'item': 'val', 'a_list': 'str'},
       returns='bool', calls=JSON_CALLS, spec_calls=JSON_SPEC,
       ensures=["result == (item in json.loads(a_list))"], native=gen_inlist),
  unit(F, 'ArrayConcat', props=['C20'], params=['a', 'b'], types={'a': 'opt[str]', 'b': 'opt[str]'},
       returns='opt[str]', calls=JSON_CALLS, spec_calls=JSON_SPEC, drop_calls=['print'],
       ensures=["implies(a is None or b is None, result is None)",
                "implies(a is not None and b is not None, result is not None)",
                "implies(a is not None and b is not None, "
                "json.loads(result) == json.loads(a) + json.loads(b))"], native=gen_fn2_lists),
  unit(F, 'Join', props=['C20'], params=['array', 'separator'], types={'array': 'str', 'separator': 'str'},
       returns='str', calls=JSON_CALLS,
       ensures=["result == separator.join([str(x) for x in json.loads(array)])"], native=gen_join),
  unit(F, 'AssembleRecord', props=['C20'], deductive=False, params=['field_value_list'],
       ensures=["json.loads(result) == dict(kv)"], native=gen_record),
]


# ---------------------------------------------------------------- registration table (exhaustive)
import re

SQLITE_BUILTIN = {'JSON_EXTRACT', 'JSON_GROUP_ARRAY', 'JSON_ARRAY_LENGTH', 'JSON_ARRAY', 'JSON_OBJECT', 'JSON_EACH',
                  'COUNT', 'GROUP_CONCAT', 'PRINTF', 'MIN', 'MAX', 'CAST', 'DATE', 'JULIANDAY', 'SUM', 'AVG', 'CHAR',
                  'SELECT', 'AS', 'DISTINCT', 'ABS', 'LENGTH', 'UPPER', 'LOWER', 'SUBSTR', 'REPLACE', 'ROUND', 'COALESCE',
                  'IN', 'WITH', 'FROM', 'WHERE', 'UNION', 'T', 'N', 'INT64', 'TEXT', 'IF', 'IFNULL', 'TRIM', 'INSTR', 'JSON_VALID',
                  'JSON_TYPE', 'JSON_QUOTE', 'JSON', 'TYPEOF', 'NULLIF', 'WHEN', 'CASE', 'THEN'}


class Spy:
  def __init__(self):
    self.fn = {}

  def create_function(self, name, arity, f):
    self.fn[name.upper()] = arity

  def create_aggregate(self, name, arity, cls):
    self.fn[name.upper()] = arity


def used_functions(mod):
  from vlib import rt
  d = rt.repo_module('compiler.dialects').SqLiteDialect()
  lib = rt.repo_module('compiler.dialect_libraries.sqlite_library').library
  used = {}
  texts = list(d.BuiltInFunctions().values()) + list(d.InfixOperators().values()) + \
      re.findall(r'SqlExpr\("([^"]*)"', lib)
  for t in texts:
    if not t:
      continue
    for m in re.finditer(r'([A-Za-z_][A-Za-z_0-9]*)\(', t):
      name = m.group(1).upper()
      # arity = number of top-level commas + 1 inside the call, when it can be read off the template
      depth, n, j = 0, 1, m.end()
      inner = ''
      while j < len(t):
        c = t[j]
        if c == '(':
          depth += 1
        elif c == ')':
          if depth == 0:
            break
          depth -= 1
        elif c == ',' and depth == 0:
          n += 1
        inner += c
        j += 1
      used.setdefault(name, set()).add(None if inner.strip() in ('%s',) else (0 if not inner.strip() else n))
  return used


def gen_registration(tier, mod):
  yield {'args': [Spy()], 'env': {'used': used_functions(mod), 'BUILTIN': SQLITE_BUILTIN}, 'show': 'spy connection'}


UNITS += [
  unit(F, 'ExtendConnectionWithLogicaFunctions', props=['C20'], deductive=False, params=['con'],
       # every SQL function the SQLite dialect's templates and library call is a SQLite built-in or is
       # registered, with the arity the template uses
       ensures=["all(name in BUILTIN or name in con.fn for name in used)",
                "all(a is None or con.fn[name] == -1 or a == con.fn[name] for name in used if name in con.fn for a in used[name])"],
       native=gen_registration),
]
