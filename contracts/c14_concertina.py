"""C14 — Concertina scheduler step lemmas (common/concertina_lib.py)."""
from vlib.units import unit
from vlib import mk

F = 'common/concertina_lib.py'

FIELDS = {
  'self.action_iterations_complete': 'dict[str,int]',
  'self.iteration_repetitions': 'dict[str,int]',
  'self.action_iteration': 'dict[str,str]',
  'self.complete_actions': 'set[str]',
  'self.action_stopped': 'set[str]',
  'self.actions_to_run': 'list[str]',
  'self.wrench_in_gears': 'set[str]',
  'self.running_actions': 'set[str]',
}

SAMEITER = ("a in self.action_iteration and "
            "self.action_iteration[a] == self.action_iteration[one_action]")



def mk_concertina(mod, queue, counts, reps, stop_its=(), complete=()):
  c = mk.concertina(mod)
  its = {'it1': ['A', 'B'], 'it2': ['C', 'D']}
  c.action_iteration = {a: it for it, ms in its.items() for a in ms}
  c.iteration_repetitions = dict(reps)
  c.action_iterations_complete = dict(counts)
  c.iteration_stop_signal = {it: ('/sig/' + it if it in stop_its else None) for it in its}
  c.wrench_in_gears = {'/sig/' + it for it in stop_its}
  c.actions_to_run = list(queue)
  c.complete_actions = set(complete)
  c.action_stopped = set()
  c.running_actions = set()
  return c


def gen_update(tier, mod):
  import itertools
  others = ['A', 'B', 'C', 'D', 'X']
  maxq = 3 if tier == 'quick' else 4
  for one in ('A', 'C'):
    pool = [a for a in others if a != one]
    for n in range(0, maxq + 1):
      for q in itertools.permutations(pool, n):
        for cnt in (0, 1):
          for rep in (1, 2, 3):
            for stop in ((), ('it1',), ('it2',)):
              counts = {'A': cnt, 'B': 0, 'C': cnt, 'D': 1}
              c = mk_concertina(mod, q, counts, {'it1': rep, 'it2': rep}, stop)
              def plen(q=q, one=one, c=c):
                k = 0
                while k < len(q) and q[k] in c.action_iteration and \
                    c.action_iteration[q[k]] == c.action_iteration[one]:
                  k += 1
                return k
              yield {'args': [one], 'self': c, 'env': {'plen': plen},
                     'show': {'queue': list(q), 'one_action': one, 'count_before': cnt,
                              'repetitions': rep, 'stop_signal_seen': list(stop)}}


UNITS = [
  unit(F, 'Concertina.ActionIterationWantsToStopBySignal', external=True,
       params=['action'], types={'action': 'str'}, fields=FIELDS, returns='bool',
       modifies=['self.wrench_in_gears'], requires=[], ensures=[]),

  unit(F, 'Concertina.UpdateStateForIterativeAction', props=['C14', 'C03'],
       params=['one_action'], types={'one_action': 'str'}, fields=FIELDS,
       modifies=['self.action_iterations_complete', 'self.complete_actions', 'self.action_stopped',
                 'self.actions_to_run', 'self.wrench_in_gears'],
       ufs={'plen': ([], 'int')},
       spec_funcs={'sameiter': (['a'], SAMEITER)},
       requires=["one_action in self.action_iterations_complete",
                 "one_action in self.action_iteration",
                 "self.action_iteration[one_action] in self.iteration_repetitions"],
       axioms=[
           # plen(): length of the maximal prefix of the queue made of members of one_action's iteration
           "0 <= plen() and plen() <= len(self.actions_to_run)",
           "all(sameiter(self.actions_to_run[k]) for k in range(plen()))",
           "implies(plen() < len(self.actions_to_run), not sameiter(self.actions_to_run[plen()]))"],
       ensures=[
           # the counter of the action that ran is incremented, no other counter moves
           "self.action_iterations_complete[one_action] == old(self.action_iterations_complete[one_action]) + 1",
           "all(implies(a != one_action, a in self.action_iterations_complete and "
           "self.action_iterations_complete[a] == old(self.action_iterations_complete)[a]) "
           "for a in old(self.action_iterations_complete))",
           # complete_actions only grows
           "old(self.complete_actions) <= self.complete_actions",
           # reaching the declared number of repetitions completes the action and leaves the queue alone
           "implies(self.action_iterations_complete[one_action] >= "
           "self.iteration_repetitions[self.action_iteration[one_action]], "
           "one_action in self.complete_actions and self.actions_to_run == old(self.actions_to_run))",
           # otherwise: either stopped (complete, queue untouched) or re-queued exactly once, right
           # after the members of its own iteration that head the queue; nothing else moves
           "(one_action in self.complete_actions and self.actions_to_run == old(self.actions_to_run)) or "
           "(self.action_iterations_complete[one_action] < "
           " self.iteration_repetitions[self.action_iteration[one_action]] and "
           " self.complete_actions == old(self.complete_actions) and "
           " self.actions_to_run == old(self.actions_to_run)[:plen()] + [one_action] + "
           "old(self.actions_to_run)[plen():])",
           # an action is marked stopped only below its repetition count
           "implies(one_action in self.action_stopped and one_action not in old(self.action_stopped), "
           "self.action_iterations_complete[one_action] < "
           "self.iteration_repetitions[self.action_iteration[one_action]])"],
       loops={0: {'inv': ["0 <= i and i <= len(self.actions_to_run)",
                          "all(sameiter(self.actions_to_run[k]) for k in range(i))"],
                  'dec': "len(self.actions_to_run) - i"}},
       native=gen_update),
]
