"""C14 — Concertina scheduler step lemmas (common/concertina_lib.py)."""
from vlib.units import unit
from vlib import mk

F = 'common/concertina_lib.py'

FIELDS = {
  'self.action_iterations_complete': 'dict[str,int]',
  'self.iteration_repetitions': 'dict[str,int]',
  'self.action_iteration': 'dict[str,str]',
  'self.complete_actions': 'set[str]',
  'self.action_stopped': 'set[str]',
  'self.actions_to_run': 'list[str]',
  'self.wrench_in_gears': 'set[str]',
  'self.running_actions': 'set[str]',
}

# plen(queue, a, action_iteration): length of the maximal prefix of the queue made of members of a's
# iteration.  A total function of its three arguments, characterised uniquely by the three axioms below
# (they are evaluated natively against the executable definition on every enumerated case).
PLEN_UF = {'plen': (['list[str]', 'str', 'dict[str,str]'], 'int')}
PL = 'plen(self.actions_to_run, one_action, self.action_iteration)'
PLEN_AXIOMS = [
    "0 <= PL and PL <= len(self.actions_to_run)".replace('PL', PL),
    "all(sameiter(self.actions_to_run[k]) for k in range(PL))".replace('PL', PL),
    "implies(PL < len(self.actions_to_run), not sameiter(self.actions_to_run[PL]))".replace('PL', PL)]


def plen_native(q, one, ai):
  k = 0
  if one not in ai:
    return 0
  while k < len(q) and q[k] in ai and ai[q[k]] == ai[one]:
    k += 1
  return k


SAMEITER = ("a in self.action_iteration and "
            "self.action_iteration[a] == self.action_iteration[one_action]")



def mk_concertina(mod, queue, counts, reps, stop_its=(), complete=()):
  c = mk.concertina(mod)
  its = {'it1': ['A', 'B'], 'it2': ['C', 'D']}
  c.action_iteration = {a: it for it, ms in its.items() for a in ms}
  c.iteration_repetitions = dict(reps)
  c.action_iterations_complete = dict(counts)
  c.iteration_stop_signal = {it: ('/sig/' + it if it in stop_its else None) for it in its}
  c.wrench_in_gears = {'/sig/' + it for it in stop_its}
  c.actions_to_run = list(queue)
  c.complete_actions = set(complete)
  c.action_stopped = set()
  c.running_actions = set()
  return c


def gen_update(tier, mod):
  import itertools
  others = ['A', 'B', 'C', 'D', 'X']
  maxq = 3 if tier == 'quick' else 4
  for one in ('A', 'C'):
    pool = [a for a in others if a != one]
    for n in range(0, maxq + 1):
      for q in itertools.permutations(pool, n):
        for cnt in (0, 1):
          for rep in (1, 2, 3):
            for stop in ((), ('it1',), ('it2',)):
              counts = {'A': cnt, 'B': 0, 'C': cnt, 'D': 1}
              c = mk_concertina(mod, q, counts, {'it1': rep, 'it2': rep}, stop)
              yield {'args': [one], 'self': c, 'env': {'plen': plen_native},
                     'show': {'queue': list(q), 'one_action': one, 'count_before': cnt,
                              'repetitions': rep, 'stop_signal_seen': list(stop)}}



# ----------------------------------------------------------------------------------------------
# RunOneAction / Run: the whole-run invariant of the queue.
#
#   distinct     the queue never holds an action twice
#   disjoint     a queued action is not complete
#   ordered      every prerequisite of the action at position k is complete, or is a member of the same
#                iteration, or is queued at a position before k
#   typed        a queued action with a repetition counter belongs to an iteration with a declared count
#
# RunOneAction pops the head, runs exactly that action through the engine (ghost log), and -- under the
# invariant -- the head's prerequisites are complete or iteration mates at that moment.  Run keeps the
# invariant across every step, so this holds for every action of the run, and a complete action never
# runs again (it is not in the queue, and the queue only receives the action that has just run).
Q = 'self.actions_to_run'
H = 'old(self.actions_to_run)[0]'
MATE = ("a in self.action_iteration and b in self.action_iteration and "
        "self.action_iteration[a] == self.action_iteration[b]")
PL1 = 'plen(self.actions_to_run[1:], self.actions_to_run[0], self.action_iteration)'
SAMEITER1 = ("a in self.action_iteration and "
             "self.action_iteration[a] == self.action_iteration[self.actions_to_run[0]]")
PLEN1_AXIOMS = [
    "implies(len(Q) > 0, 0 <= PL1 and PL1 <= len(Q) - 1)",
    "implies(len(Q) > 0, all(sameiter1(Q[1:][k]) for k in range(PL1)))",
    "implies(len(Q) > 0 and PL1 < len(Q) - 1, not sameiter1(Q[1:][PL1]))"]
PLEN1_AXIOMS = [a.replace('PL1', PL1).replace('Q', Q) for a in PLEN1_AXIOMS]

INV_DISTINCT = "all(all(implies(i != j, Q[i] != Q[j]) for j in range(len(Q))) for i in range(len(Q)))"
INV_DISJOINT = "all(Q[k] not in self.complete_actions for k in range(len(Q)))"
INV_ORDERED = ("all(all(r in self.complete_actions or mate(r, Q[k]) or any(Q[j] == r for j in range(k)) "
               "for r in self.action_requires[Q[k]]) for k in range(len(Q)))")
INV_TYPED = ("all(implies(Q[k] in self.action_iterations_complete, Q[k] in self.action_iteration and "
             "self.action_iteration[Q[k]] in self.iteration_repetitions) for k in range(len(Q)))")
INVS = [x.replace('Q', Q) for x in (INV_DISTINCT, INV_DISJOINT, INV_ORDERED, INV_TYPED)]

# what RunOneAction needs of the invariant: its instances at the head of the queue
HEAD_PRE = [
    "all(self.actions_to_run[k] != self.actions_to_run[0] for k in range(1, len(self.actions_to_run)))",
    "self.actions_to_run[0] not in self.complete_actions",
    "all(r in self.complete_actions or mate(r, self.actions_to_run[0]) "
    "for r in self.action_requires[self.actions_to_run[0]])",
    "implies(self.actions_to_run[0] in self.action_iterations_complete, "
    "self.actions_to_run[0] in self.action_iteration and "
    "self.action_iteration[self.actions_to_run[0]] in self.iteration_repetitions)"]

# Ghost state for the deductive tier (no run-time existence): g_inq = the set of queued actions,
# g_pos = the position of each queued action.  Their values are *definitions*: introduced at the entry of
# Run from "the queue holds no action twice" (for such a list the index map exists), updated at the exit of
# RunOneAction by an explicit function of the old map.  With them the invariant needs no existential
# quantifier (z3 and cvc5 decide none of the obligations in the `any(...)` form).
G_LINK = ["all(self.actions_to_run[j] in self.g_inq and self.g_pos[self.actions_to_run[j]] == j "
          "for j in range(len(self.actions_to_run)))",
          "all(implies(b in self.g_inq, 0 <= self.g_pos[b] and self.g_pos[b] < len(self.actions_to_run) "
          "and self.actions_to_run[self.g_pos[b]] == b) for b in Sort('str'))"]
G_ORDERED = ("all(all(r in self.complete_actions or mate(r, Q[k]) or (r in self.g_inq and self.g_pos[r] < k) "
             "for r in self.action_requires[Q[k]]) for k in range(len(Q)))").replace('Q', Q)
G_INVS = G_LINK + [INVS[1], G_ORDERED, INVS[3]]
REQUEUED = "(H not in self.complete_actions)"
GHOST_DEFS = {
    'self.g_inq': ('b', 'str', "b in old(self.g_inq) and (b != H or REQUEUED)"),
    'self.g_pos': ('b', 'str',
                   "((old(PL1) if b == H else (old(self.g_pos)[b] - 1 if old(self.g_pos)[b] <= old(PL1) "
                   "else old(self.g_pos)[b])) if REQUEUED else old(self.g_pos)[b] - 1)"),
}
GHOST_DEFS = {k: (v[0], v[1], v[2].replace('REQUEUED', REQUEUED).replace('PL1', PL1).replace('H', H))
              for k, v in GHOST_DEFS.items()}

RUN_FIELDS = dict(FIELDS)
RUN_FIELDS.update({'self.action_requires': 'dict[str,set[str]]', 'self.run_log': 'list[str]',
                   'self.g_inq': 'set[str]', 'self.g_pos': 'dict[str,int]'})


class LogEngine(object):
  """Engine of the native harness: appends the payload it is given to the ghost log of its Concertina."""
  def __init__(self, c):
    self.c = c

  def Run(self, action):
    self.c.run_log.append(action)


def mk_run_case(mod, queue, requires, counts, reps, complete=(), stop_its=()):
  c = mk_concertina(mod, queue, counts, reps, stop_its, complete)
  names = set(queue) | set(requires) | {r for rs in requires.values() for r in rs} | set(complete)
  c.action = {a: {'name': a, 'action': {'predicate': a, 'launcher': 'none'}, 'requires': sorted(requires.get(a, ()))}
              for a in names}
  c.action_requires = {a: set(requires.get(a, ())) for a in names}
  c.all_actions = set(names)
  c.run_log = []
  c.engine = LogEngine(c)
  c.display_mode = 'silent'
  return c


def gen_run(tier, mod):
  """Queues over two iterations {A,B}, {C,D} and plain actions X, Y with every small requirement map;
  cases violating the invariant are skipped by the precondition (and counted as skipped)."""
  import itertools
  names = ['A', 'B', 'C', 'X', 'Y']
  maxq = 3 if tier == 'quick' else 4
  reqs = [{}, {'X': ['A']}, {'X': ['B', 'Y']}, {'A': ['Y']}, {'B': ['A'], 'A': ['B']}, {'C': ['B'], 'Y': ['X']}]
  for n in range(0, maxq + 1):
    for q in itertools.permutations(names, n):
      for rq in reqs:
        for cnt in (0, 1):
          for rep in (1, 2, 3):
            for done in ((), ('Y',), ('A', 'B')):
              if set(done) & set(q):
                continue
              counts = {'A': cnt, 'B': cnt, 'C': 0, 'D': 0}
              c = mk_run_case(mod, q, rq, counts, {'it1': rep, 'it2': 2}, done)
              yield {'args': [], 'self': c, 'env': {'plen': plen_native},
                     'show': {'queue': list(q), 'requires': rq, 'counts': counts, 'repetitions': rep,
                              'complete': list(done)}}


# ---- SortActions: loop invariants (R = result, A = actions_to_assign, C = complete) ------------------------
ISAT = "(a not in self.action_iteration or self.iteration_actions[self.action_iteration[a]][0] == a)"
W_COMMON = [
    # what is in the result is complete, no longer to assign, and a configured action
    "all(result[i] in complete and result[i] not in actions_to_assign and result[i] in all_names() "
    "for i in range(len(result)))",
    # everything complete is in the result
    "all(any(result[j] == x for j in range(len(result))) for x in complete)",
    "all(all(implies(i != j, result[i] != result[j]) for j in range(len(result))) for i in range(len(result)))",
    # every prerequisite of result[k] is an iteration mate or stands before k
    "all(all(mate(r, result[k]) or any(result[j] == r for j in range(k)) "
    "for r in self.action_requires[result[k]]) for k in range(len(result)))",
    "all(x in all_names() for x in actions_to_assign)",
    "all(isat(x) for x in atamans)",
]
# while an iteration is being assigned: every member still to assign is ready -- each of its prerequisites is an
# iteration mate or already in the result (established when the first action of the iteration is appended, from
# the well-formedness precondition; used when the block of remaining members is appended)
W_LINK = ("implies(assigning_iteration is not None, assigning_iteration in self.iteration_actions and "
          "all(implies(self.iteration_actions[assigning_iteration][p] in actions_to_assign, "
          "all(mate(r, self.iteration_actions[assigning_iteration][p]) or "
          "any(result[j] == r for j in range(len(result))) "
          "for r in self.action_requires[self.iteration_actions[assigning_iteration][p]])) "
          "for p in range(len(self.iteration_actions[assigning_iteration]))))")
SORT_LOOPS = {
    0: {'inv': ["all(isat(atamans[i]) for i in range(len(atamans)))"]},
    # `focus`: the assumptions an obligation is given (invariant (loop, index) pairs and precondition indices);
    # leaving hypotheses out is sound, and keeps the existential clauses decidable for the solver
    1: {'inv': W_COMMON + [W_LINK, "not exit_for"],
        'focus': {1: {'inv': [(1, 1), (2, 1), (2, 6), (2, 7)], 'req': []},
                  3: {'inv': [(1, 3), (1, 6), (1, 0), (1, 4), (2, 3), (2, 1), (2, 6), (2, 7)], 'req': [0, 3, 4]},
                  6: {'inv': [(1, 6), (1, 0), (1, 4), (2, 0), (2, 1), (2, 4), (2, 5), (2, 6), (2, 7), (2, 8)],
                      'req': [0, 1, 3, 4]}}},
    2: {'focus': {1: {'inv': [(2, 1)], 'req': []}},
        'inv': W_COMMON + ["assigning_iteration is None", "not exit_for",
                           "all(eligible[j] in actions_to_assign and eligible[j] in atamans "
                           "for j in range(_i2, len(eligible)))"]},
}


SORT_REQUIRES = [
           # iteration tables agree (UnderstandIterations): members know their iteration, lists are non-empty
           # and without repetition
           "all(all(m in self.action_iteration and self.action_iteration[m] == it "
           "for m in self.iteration_actions[it]) for it in self.iteration_actions)",
           "all(self.action_iteration[a] in self.iteration_actions and "
           "len(self.iteration_actions[self.action_iteration[a]]) > 0 for a in self.action_iteration)",
           "all(all(all(implies(i != j, self.iteration_actions[it][i] != self.iteration_actions[it][j]) "
           "for j in range(len(self.iteration_actions[it]))) for i in range(len(self.iteration_actions[it]))) "
           "for it in self.iteration_actions)",
           # well-formed plan: a later member of an iteration requires only iteration mates and what the first requires
           "all(implies(a in self.action_requires and head(a) != a, "
           "all(mate(r, a) or r in self.action_requires[head(a)] for r in self.action_requires[a])) "
           "for a in self.action_iteration)",
           "all(a in self.action_requires for a in all_names())",
           "'' not in self.iteration_actions"]
SORT_ENSURES = [
           "all(all(implies(i != j, result[i] != result[j]) for j in range(len(result))) for i in range(len(result)))",
           "all(all(mate(r, result[k]) or any(result[j] == r for j in range(k)) "
           "for r in self.action_requires[result[k]]) for k in range(len(result)))",
           "all(result[k] in all_names() for k in range(len(result)))"]


def gen_sort(tier, mod):
  """Every requirement map over up to four actions (each action requires any subset of the others: cyclic maps end
  in the "could not schedule" assertion, which the contract allows), with no iteration, an iteration of the first
  two actions, of the first three, and two iterations of two; preconditions filter the well-formed plans."""
  import itertools
  names = ['A', 'B', 'C', 'D']
  nmax = 3 if tier == 'quick' else 4
  for n in range(1, nmax + 1):
    ns = names[:n]
    subsets = [[x for k, x in enumerate(ns) if m >> k & 1] for m in range(1 << n)]
    itss = [{}] + ([{'it1': ns[:2]}, {'it1': list(reversed(ns[:2]))}] if n >= 2 else []) + \
        ([{'it1': ns[:3]}, {'it1': [ns[1], ns[0], ns[2]]}] if n >= 3 else []) + ([{'it1': ns[:2], 'it2': ns[2:4]}] if n >= 4 else [])
    for reqs in itertools.product(subsets, repeat=n):
      req = {a: set(r) - {a} for a, r in zip(ns, reqs)}
      for its in itss:
        c = mk.concertina(mod)
        c.config = [{'name': a, 'requires': sorted(req[a])} for a in ns]
        c.action = {a['name']: a for a in c.config}
        c.iteration_actions = {k: list(v) for k, v in its.items()}
        c.action_iteration = {a: k for k, v in its.items() for a in v}
        c.action_requires = {a: set(r) for a, r in req.items()}
        def has_cycle(req=req, its=its):
          # requirement cycle after merging each iteration into one node (and dropping requirements inside it)
          node = {a: a for a in req}
          for k_, v_ in its.items():
            for a in v_:
              node[a] = k_
          g = {}
          for a, r in req.items():
            g.setdefault(node[a], set()).update(node[x] for x in r if x in node and node[x] != node[a])
          seen, done = set(), set()

          def dfs(v):
            if v in done:
              return False
            if v in seen:
              return True
            seen.add(v)
            cyc = any(dfs(w) for w in g.get(v, ()))
            done.add(v)
            return cyc
          # the first action of an iteration waits for everything it requires, members of its iteration included
          head_waits = any(set(req[v_[0]]) & set(v_) for v_ in its.values() if v_ and v_[0] in req)
          return head_waits or any(dfs(v) for v in list(g))
        yield {'args': [], 'self': c, 'env': {'all_names': (lambda ns=ns: set(ns)), 'has_cycle': has_cycle},
               'show': {'actions': ns, 'requires': {a: sorted(r) for a, r in req.items()}, 'iterations': its}}

UNITS = [
  unit(F, 'Concertina.ActionIterationWantsToStopBySignal', external=True,
       params=['action'], types={'action': 'str'}, fields=FIELDS, returns='bool',
       modifies=['self.wrench_in_gears'], requires=[], ensures=[]),

  unit(F, 'Concertina.UpdateStateForIterativeAction', props=['C14', 'C03'],
       params=['one_action'], types={'one_action': 'str'}, fields=FIELDS,
       modifies=['self.action_iterations_complete', 'self.complete_actions', 'self.action_stopped',
                 'self.actions_to_run', 'self.wrench_in_gears'],
       ufs=PLEN_UF,
       spec_funcs={'sameiter': (['a'], SAMEITER)},
       requires=["one_action in self.action_iterations_complete",
                 "one_action in self.action_iteration",
                 "self.action_iteration[one_action] in self.iteration_repetitions"],
       axioms=PLEN_AXIOMS, axioms_at_call=True,
       ensures=[
           # the counter of the action that ran is incremented, no other counter moves
           "self.action_iterations_complete[one_action] == old(self.action_iterations_complete[one_action]) + 1",
           "all(implies(a != one_action, a in self.action_iterations_complete and "
           "self.action_iterations_complete[a] == old(self.action_iterations_complete)[a]) "
           "for a in old(self.action_iterations_complete))",
           "all(a in old(self.action_iterations_complete) for a in self.action_iterations_complete)",
           # complete_actions only grows, and by nothing but the action that ran
           "old(self.complete_actions) <= self.complete_actions",
           "all(a == one_action or a in old(self.complete_actions) for a in self.complete_actions)",
           # reaching the declared number of repetitions completes the action and leaves the queue alone
           "implies(self.action_iterations_complete[one_action] >= "
           "self.iteration_repetitions[self.action_iteration[one_action]], "
           "one_action in self.complete_actions and self.actions_to_run == old(self.actions_to_run))",
           # otherwise: either stopped (complete, queue untouched) or re-queued exactly once, right
           # after the members of its own iteration that head the queue; nothing else moves
           "(one_action in self.complete_actions and self.actions_to_run == old(self.actions_to_run)) or "
           "(self.action_iterations_complete[one_action] < "
           " self.iteration_repetitions[self.action_iteration[one_action]] and "
           " self.complete_actions == old(self.complete_actions) and "
           " self.actions_to_run == old(self.actions_to_run)[:old(PL)] + [one_action] + "
           "old(self.actions_to_run)[old(PL):])".replace('PL', PL),
           # an action is marked stopped only below its repetition count
           "implies(one_action in self.action_stopped and one_action not in old(self.action_stopped), "
           "self.action_iterations_complete[one_action] < "
           "self.iteration_repetitions[self.action_iteration[one_action]])"],
       loops={0: {'inv': ["0 <= i and i <= len(self.actions_to_run)",
                          "all(sameiter(self.actions_to_run[k]) for k in range(i))"],
                  'dec': "len(self.actions_to_run) - i"}},
       native=gen_update),

  unit(F, 'ConcertinaEngine.Run', external=True, params=['action'], types={'action': 'str'},
       fields={'self.run_log': 'list[str]'}, modifies=['self.run_log'], requires=[],
       # ghost: the engine call is recorded; the engine touches nothing of the scheduler's state
       ensures=["self.run_log == old(self.run_log) + [action]"]),

  unit(F, 'Concertina.RunOneAction', props=['C14'], params=[], fields=RUN_FIELDS,
       modifies=['self.action_iterations_complete', 'self.complete_actions', 'self.action_stopped',
                 'self.actions_to_run', 'self.wrench_in_gears', 'self.running_actions', 'self.run_log',
                 'self.g_inq', 'self.g_pos'],
       ghost_defs=GHOST_DEFS,
       calls={'self.engine.Run': 'ConcertinaEngine.Run'}, drop_calls=['UpdateDisplay'],
       abstract_exprs={"self.action[one_action].get('action', {})": ('payload', ['one_action'], 'str')},
       ufs=dict(PLEN_UF, payload=(['str'], 'str')),
       spec_funcs={'payload': (['a'], "self.action[a].get('action', {})"), 'mate': (['a', 'b'], MATE),
                   'sameiter1': (['a'], SAMEITER1)},
       axioms=PLEN1_AXIOMS, axioms_at_call=True,
       requires=["len(self.actions_to_run) > 0"] + HEAD_PRE,
       ensures=[
           # exactly one engine call, with the payload of the action that headed the queue
           "self.run_log == old(self.run_log) + [payload(old(self.actions_to_run)[0])]",
           # at that moment every prerequisite of the action was complete or a member of its iteration
           "all(r in old(self.complete_actions) or mate(r, old(self.actions_to_run)[0]) for r in self.action_requires[old(self.actions_to_run)[0]])",
           # the action that ran was not complete before; nothing is ever un-completed; only it can complete
           "old(self.actions_to_run)[0] not in old(self.complete_actions)",
           "old(self.complete_actions) <= self.complete_actions",
           "all(a == old(self.actions_to_run)[0] or a in old(self.complete_actions) for a in self.complete_actions)",
           # an action without a repetition counter runs once: complete, the rest of the queue as it was
           "implies(old(self.actions_to_run)[0] not in old(self.action_iterations_complete), "
           "old(self.actions_to_run)[0] in self.complete_actions and self.actions_to_run == old(self.actions_to_run)[1:] and "
           "self.action_iterations_complete == old(self.action_iterations_complete))",
           # an iterated action: counter + 1, then complete (count reached or stop signal) or re-queued once
           # right behind the members of its own iteration heading the rest of the queue
           "implies(old(self.actions_to_run)[0] in old(self.action_iterations_complete), "
           "self.action_iterations_complete[old(self.actions_to_run)[0]] == old(self.action_iterations_complete)[old(self.actions_to_run)[0]] + 1 and "
           "((old(self.actions_to_run)[0] in self.complete_actions and self.actions_to_run == old(self.actions_to_run)[1:]) or "
           " (self.complete_actions == old(self.complete_actions) and "
           "  self.action_iterations_complete[old(self.actions_to_run)[0]] < self.iteration_repetitions[self.action_iteration[old(self.actions_to_run)[0]]] and "
           "  self.actions_to_run == old(self.actions_to_run)[1:][:old(plen(self.actions_to_run[1:], self.actions_to_run[0], self.action_iteration))] + [old(self.actions_to_run)[0]] + "
           "old(self.actions_to_run)[1:][old(plen(self.actions_to_run[1:], self.actions_to_run[0], self.action_iteration)):])))",
           "all(implies(a != old(self.actions_to_run)[0], a in self.action_iterations_complete and "
           "self.action_iterations_complete[a] == old(self.action_iterations_complete)[a]) "
           "for a in old(self.action_iterations_complete))",
           "all(a in old(self.action_iterations_complete) for a in self.action_iterations_complete)",
           # the same queue statements position by position (the form the proof of Run uses)
           "implies(old(self.actions_to_run)[0] in self.complete_actions, len(self.actions_to_run) == len(old(self.actions_to_run)) - 1 "
           "and all(self.actions_to_run[i] == old(self.actions_to_run)[i + 1] "
           "for i in range(len(self.actions_to_run))))",
           "implies(old(self.actions_to_run)[0] not in self.complete_actions, "
           "len(self.actions_to_run) == len(old(self.actions_to_run)) and "
           "self.complete_actions == old(self.complete_actions) and "
           "0 <= old(plen(self.actions_to_run[1:], self.actions_to_run[0], self.action_iteration)) and old(plen(self.actions_to_run[1:], self.actions_to_run[0], self.action_iteration)) <= len(old(self.actions_to_run)) - 1 and "
           "all(self.actions_to_run[i] == (old(self.actions_to_run)[i + 1] if i < old(plen(self.actions_to_run[1:], self.actions_to_run[0], self.action_iteration)) else "
           "(old(self.actions_to_run)[0] if i == old(plen(self.actions_to_run[1:], self.actions_to_run[0], self.action_iteration)) else old(self.actions_to_run)[i])) for i in range(len(self.actions_to_run))) and "
           "all(mate(old(self.actions_to_run)[i + 1], old(self.actions_to_run)[0]) for i in range(old(plen(self.actions_to_run[1:], self.actions_to_run[0], self.action_iteration)))))",
       ],
       call_skip_ensures=[5, 6],
       native=gen_run),

  unit(F, 'Concertina.Run', props=['C14'], params=[], fields=RUN_FIELDS,
       modifies=['self.action_iterations_complete', 'self.complete_actions', 'self.action_stopped',
                 'self.actions_to_run', 'self.wrench_in_gears', 'self.running_actions', 'self.run_log',
                 'self.g_inq', 'self.g_pos'],
       drop_calls=['UpdateDisplay'], ufs=PLEN_UF,
       spec_funcs={'mate': (['a', 'b'], MATE)},
       requires=INVS,
       # ghost introduction (see above): for a queue without repetitions the index map exists
       axioms=["implies(%s, %s and %s)" % (INVS[0], G_LINK[0], G_LINK[1])],
       ensures=["len(self.actions_to_run) == 0",
                "old(self.complete_actions) <= self.complete_actions",
                # everything that was queued has completed
                "all(a in self.complete_actions for a in old(self.actions_to_run))"],
       native_skip_axioms=True,
       loops={0: {'inv': G_INVS + ["old(self.complete_actions) <= self.complete_actions",
                                   "all(old(self.actions_to_run)[k] in self.complete_actions or "
                                   "old(self.actions_to_run)[k] in self.g_inq "
                                   "for k in range(len(old(self.actions_to_run))))"]}},
       native=gen_run),
  # SortActions establishes the queue invariant Run starts from (C = {}): no action twice, and every prerequisite
  # of the action at position k is a member of the same iteration or stands before k.  For the members an
  # iteration appends after its first action ("ataman") this needs the plan to be well formed: such a member
  # requires nothing beyond its iteration and what the first action requires (UnderstandIterations gives every
  # member of a half-iteration the external requirements of that half; see DESIGN 9.3 on lower-half externals).
  unit(F, 'Concertina.SortActions', props=['C14'], params=[], returns='list[str]',
       fields={'self.action_iteration': 'dict[str,str]', 'self.iteration_actions': 'dict[str,list[str]]',
               'self.action_requires': 'dict[str,set[str]]'},
       modifies=[], asserts='diagnostic', may_raise={'AssertionError': 'True'},
       # "could not schedule" is a diagnostic for plans with a requirement cycle (iterations taken as one node) or whose
       # first action of an iteration requires a member of that iteration; every other plan is scheduled
       native_may_raise={'AssertionError': 'has_cycle()'}, concat_axioms=True, set_axioms=True,
       abstract_exprs={"{a['name'] for a in self.config}": ('all_names', [], 'set[str]')},
       ufs={'all_names': ([], 'set[str]')},
       spec_funcs={'mate': (['a', 'b'], MATE), 'isat': (['a'], ISAT),
                   'head': (['a'], "self.iteration_actions[self.action_iteration[a]][0]")},
       locals={'atamans': 'list[str]', 'complete': 'set[str]', 'result': 'list[str]',
               'assigning_iteration': 'opt[str]', 'eligible': 'list[str]', 'actions_to_assign': 'set[str]'},
       requires=SORT_REQUIRES,
       ensures=SORT_ENSURES,
       loops=SORT_LOOPS,
       native=gen_sort),

  # the part of __init__ that builds the scheduler state: after it the precondition of Run holds (with nothing
  # complete).  The tables UnderstandIterations builds are the precondition here (not verified: dict comprehensions
  # over the nested config are outside the subset); `typed` is the one fact about them Run needs beyond SortActions'.
  unit(F, 'Concertina.__init__', name='Concertina.__init__[queue]', props=['C14'], params=['engine'], types={'engine': 'str'},
       slice=('self.actions_to_run = self.SortActions()', 'self.running_actions = set()'),
       fields=dict(RUN_FIELDS, **{'self.iteration_actions': 'dict[str,list[str]]', 'self.engine': 'str',
                                  'self.all_actions': 'set[str]'}),
       modifies=['self.actions_to_run', 'self.engine', 'self.all_actions', 'self.complete_actions', 'self.running_actions'],
       asserts='diagnostic', may_raise={'AssertionError': 'True'}, cls='Concertina',
       abstract_exprs={"{a['name'] for a in self.config}": ('all_names', [], 'set[str]'),
                       "len(self.action) == len(self.config)": ('names_unique', [], 'bool')},
       ufs={'all_names': ([], 'set[str]'), 'names_unique': ([], 'bool')},
       spec_funcs={'mate': (['a', 'b'], MATE), 'isat': (['a'], ISAT),
                   'head': (['a'], "self.iteration_actions[self.action_iteration[a]][0]")},
       requires=SORT_REQUIRES + [
           "all(implies(a in self.action_iterations_complete, a in self.action_iteration and "
           "self.action_iteration[a] in self.iteration_repetitions) for a in all_names())"],
       ensures=INVS + ["self.all_actions == all_names()"]),
]


# ---------------------------------------------------------------------------------------------------------------
# concertina_lib.RenamePredicate (plan assembly: a predicate that is both requested and an intermediate of another
# requested predicate is renamed in the export map and in both edge sets): proved -- the three results are exactly the
# images of the three inputs under the renaming of names (to_name fresh among the export map's keys).
REN = "(to_name if x == from_name else x)"
EDGE_T = 'set[tuple[str,str]]'


def _rename_cases(tier, mod):
  import itertools
  names = ['P', 'Q', 'R']
  edges = [(a, b) for a in names for b in names if a != b]
  for m in ({}, {'P': 'sql p'}, {'P': 'sql p', 'Q': 'sql q'}):
    for k in range(0, 3 if tier == 'quick' else 4):
      for e in itertools.combinations(edges, k):
        for d in ((), (('D', 'P'),), (('D', 'P'), ('P', 'X'))):
          for frm in ('P', 'Q', 'Zz'):
            yield {'args': [dict(m), set(e), set(d), frm, 'N'], 'show': {'map': m, 'edges': list(e), 'data': list(d), 'from': frm}}


def _edge_inv(new, old, vis):
  return ["all((ren(e[0]), ren(e[1])) in %s for e in %s)" % (new, vis),
          "all(any((ren(e[0]), ren(e[1])) == e2 for e in %s) for e2 in %s)" % (vis, new)]


UNITS += [
  unit(F, 'RenamePredicate', name='concertina.RenamePredicate[proved]', props=['C14'],
       params=['table_to_export_map', 'dependency_edges', 'data_dependency_edges', 'from_name', 'to_name'],
       types={'table_to_export_map': 'dict[str,str]', 'dependency_edges': EDGE_T, 'data_dependency_edges': EDGE_T,
              'from_name': 'str', 'to_name': 'str'},
       locals={'new_table_to_export_map': 'dict[str,str]', 'new_dependency_edges': EDGE_T,
               'new_data_dependency_edges': EDGE_T},
       returns='tuple[dict[str,str],set[tuple[str,str]],set[tuple[str,str]]]', fields={}, modifies=[],
       spec_funcs={'ren': (['x'], REN)}, native=lambda tier, mod: _rename_cases(tier, mod),
       requires=["to_name not in table_to_export_map"],
       ensures=[
           "all(ren(k) in result[0] and result[0][ren(k)] == table_to_export_map[k] for k in table_to_export_map)",
           "all(any(ren(k) == k2 for k in table_to_export_map) for k2 in result[0])",
           "all((ren(e[0]), ren(e[1])) in result[1] for e in dependency_edges)",
           "all(any((ren(e[0]), ren(e[1])) == e2 for e in dependency_edges) for e2 in result[1])",
           "all((ren(e[0]), ren(e[1])) in result[2] for e in data_dependency_edges)",
           "all(any((ren(e[0]), ren(e[1])) == e2 for e in data_dependency_edges) for e2 in result[2])"],
       loops={0: {'inv': ["all(ren(k) in new_table_to_export_map and "
                          "new_table_to_export_map[ren(k)] == table_to_export_map[k] for k in _visited0)",
                          "all(any(ren(k) == k2 for k in _visited0) for k2 in new_table_to_export_map)"]},
              1: {'inv': _edge_inv('new_dependency_edges', 'dependency_edges', '_visited1')},
              2: {'inv': _edge_inv('new_data_dependency_edges', 'data_dependency_edges', '_visited2')}}),
]
