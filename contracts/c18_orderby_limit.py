"""C18 — @OrderBy / @Limit clause construction and non-inlining (compiler/universe.py)."""
from vlib.units import unit
from vlib import mk

ANN = {'self.annotations': 'dict[str,dict[str,dict[str,val]]]'}
F = 'compiler/universe.py'

LIMIT_PRE = ["'@Limit' in self.annotations",
             # established by ExtractAnnotations for every @Limit rule (positional args only)
             "implies(predicate_name in self.annotations['@Limit'], "
             "FieldValuesAsList(self.annotations['@Limit'][predicate_name]) is not None)"]
LIMIT_RAISES = {'RuleCompileException':
                "predicate_name in self.annotations['@Limit'] and ("
                "len(FieldValuesAsList(self.annotations['@Limit'][predicate_name])) != 1 or "
                "not isinstance(FieldValuesAsList(self.annotations['@Limit'][predicate_name])[0], int))"}


ORDER_PRE = ["'@OrderBy' in self.annotations",
             # established by ExtractAnnotations (positional arguments only)
             "implies(predicate_name in self.annotations['@OrderBy'], "
             "FieldValuesAsList(self.annotations['@OrderBy'][predicate_name]) is not None)"]


def mk_ann(mod, limit=None, order_by=None, ground=False, noinject=False, with_=False, nowith=False):
  a = mk.annotations(mod)
  d = {k: {} for k in mod.Annotations.ANNOTATING_PREDICATES}
  if limit is not None:
    d['@Limit']['P'] = dict({str(i + 1): v for i, v in enumerate(limit)}, __rule_text='@Limit(P,..)')
  if order_by is not None:
    d['@OrderBy']['P'] = dict({str(i + 1): v for i, v in enumerate(order_by)}, __rule_text='@OrderBy(P,..)')
  if ground:
    d['@Ground']['P'] = {'__rule_text': '@Ground(P)'}
  if noinject:
    d['@NoInject']['P'] = {'__rule_text': '@NoInject(P)'}
  if with_:
    d['@With']['P'] = {'__rule_text': '@With(P)'}
  if nowith:
    d['@NoWith']['P'] = {'__rule_text': '@NoWith(P)'}
  d['@Engine']['sqlite'] = {'__rule_text': '@Engine("sqlite")'}
  a.annotations = d
  a.default_engine = 'sqlite'
  a.user_flags = {}
  a.flag_values = {}
  return a


LIMITS = [None, [0], [1], [2], [7], [-1], [1000000], [1, 2], [], ['x'], [None]]
ORDERS = [None, [], ['a'], ['a', 'DESC'], ['a', 'b'], ['a', 'DESC', 'b'], ['a', 'b', 'DESC'],
          ['a', 'DESC', 'b', 'DESC'], ['col0', 'a', 'DESC', 'logica_value'], ['a', 'ASC'],
          ['k%d' % i for i in range(10)], ['k%d' % i for i in range(11)] + ['DESC'],
          [x for i in range(12) for x in ('c%d' % i, 'DESC')]]


def gen_fvl(tier, mod):
  """Field-value maps: positions 1..n for n up to 23 (two-digit keys), with and without the rule text,
  with one position missing, and with a named (non-positional) argument."""
  for n in list(range(0, 13)) + [23]:
    full = {str(i + 1): 'v%d' % (i + 1) for i in range(n)}
    for rt in (False, True):
      d = dict(full, __rule_text='@A(...)') if rt else dict(full)
      yield {'args': [d], 'show': {'positions': n, 'rule_text': rt}}
      for miss in sorted({1, 2, n // 2, n - 1, n}):
        if 1 <= miss <= n:
          d2 = dict(d)
          del d2[str(miss)]
          yield {'args': [d2], 'show': {'positions': n, 'missing': miss, 'rule_text': rt}}
      yield {'args': [dict(d, name='x')], 'show': {'positions': n, 'named': 'name', 'rule_text': rt}}


def gen_limit(tier, mod):
  for lim in LIMITS:
    for name in ('P', 'Q'):
      yield {'args': [name], 'self': mk_ann(mod, limit=lim), 'show': {'@Limit(P,...)': lim, 'asked': name}}


def gen_order(tier, mod):
  for ob in ORDERS:
    for name in ('P', 'Q'):
      yield {'args': [name], 'self': mk_ann(mod, order_by=ob), 'show': {'@OrderBy(P,...)': ob, 'asked': name}}


def gen_inject(tier, mod):
  import itertools
  for lim in (None, [0], [1], [5]):
    for ob in (None, [], ['a'], ['a', 'DESC']):
      for g, ni, w in itertools.product((False, True), repeat=3):
        yield {'args': ['P'], 'self': mk_ann(mod, limit=lim, order_by=ob, ground=g, noinject=ni, with_=w),
               'show': {'limit': lim, 'order_by': ob, 'ground': g, 'noinject': ni, 'with': w}}


def ob_item(ob, k):
  return ob[k] + ',' if k + 1 < len(ob) and ob[k + 1] != 'DESC' else ob[k]


UNITS = [
  # FieldValuesAsList: the positional values in numeric order of position, for every number of
  # positions; None exactly when some position 1..n is missing (n = entries other than the rule text).
  unit(F, 'FieldValuesAsList', pure=True, props=['C18'], params=['field_values'],
       types={'field_values': 'dict[str,val]'}, locals={'field_values_list': 'list[val]'},
       returns='opt[list[val]]',
       ensures=["implies(result is not None, len(result) == npos(old(field_values)))",
                "implies(result is not None, "
                "all(result[j] == old(field_values)[str(j + 1)] for j in range(len(result))))",
                "implies(result is not None, "
                "all(str(j + 1) in old(field_values) for j in range(npos(old(field_values)))))",
                "implies(result is None, "
                "any(str(j + 1) not in old(field_values) for j in range(npos(old(field_values)))))"],
       spec_funcs={'npos': (['d'], "len(d) - (1 if '__rule_text' in d else 0)")},
       native_env={'npos': lambda d: len(d) - (1 if '__rule_text' in d else 0)},
       loops={0: {'inv': ["len(field_values_list) == _i0",
                          "all(field_values_list[j] == field_values[str(j + 1)] for j in range(_i0))",
                          "all(str(j + 1) in field_values for j in range(_i0))"]}},
       # str on integers is uninterpreted in the VCs; the one fact about it that the argument needs
       # (a decimal rendering is never the reserved key) is stated as an axiom
       opaque_int_str=True,
       axioms=["all(str(k + 1) != '__rule_text' for k in range(len(field_values)))"],
       native=gen_fvl),
  unit(F, 'Annotations.Ground', external=True, pure=True, params=['predicate_name'],
       types={'predicate_name': 'str'}, fields=ANN, returns='opt[GroundT]',
       requires=["'@Ground' in self.annotations"],
       ensures=["(result is None) == (predicate_name not in self.annotations['@Ground'])"]),

  unit(F, 'Annotations.LimitOf', pure=True, props=['C18'],
       params=['predicate_name'], types={'predicate_name': 'str'}, fields=ANN,
       returns='opt[val]', requires=LIMIT_PRE,
       ensures=["(result is None) == (predicate_name not in self.annotations['@Limit'])",
                "implies(result is not None, isinstance(result, int))",
                "implies(result is not None, "
                "result == FieldValuesAsList(self.annotations['@Limit'][predicate_name])[0])"],
       raises=LIMIT_RAISES, native=gen_limit),

  unit(F, 'Annotations.LimitClause', props=['C18'],
       params=['predicate_name'], types={'predicate_name': 'str'}, fields=ANN, returns='str',
       requires=LIMIT_PRE + [
           # `@Limit(P, true)` is outside the property's "all K" (K an integer)
           "not isinstance(self.LimitOf(predicate_name), bool)"],
       ensures=["implies(self.LimitOf(predicate_name) is None, result == '')",
                # the property: for every K (0 included) the clause is ' LIMIT K'
                "implies(self.LimitOf(predicate_name) is not None, "
                "result == ' LIMIT ' + str(intval(self.LimitOf(predicate_name))))"],
       raises=LIMIT_RAISES, native=gen_limit),

  unit(F, 'Annotations.OrderBy', pure=True, props=['C18'],
       params=['predicate_name'], types={'predicate_name': 'str'}, fields=ANN,
       returns='opt[list[val]]',
       requires=ORDER_PRE,
       ensures=["(result is None) == (predicate_name not in self.annotations['@OrderBy'])",
                "implies(result is not None, "
                "result == FieldValuesAsList(self.annotations['@OrderBy'][predicate_name]))"],
       native=gen_order),

  unit(F, 'Annotations.OrderByStr', external=True, pure=True, params=['predicate_name'],
       types={'predicate_name': 'str'}, fields=ANN, returns='opt[list[str]]', ensures=[]),

  unit(F, 'Annotations.OrderByClause', props=['C18'],
       params=['predicate_name'], types={'predicate_name': 'str'}, fields=ANN, returns='str',
       locals={'result': 'list[str]'},
       # typing assumption: the keys of @OrderBy are strings (column names / 'DESC'); the string
       # view of OrderBy() is modelled by retyping the callee below
       retype={'Annotations.OrderBy': 'Annotations.OrderByStr'},
       requires=["'@OrderBy' in self.annotations"],
       ensures=["implies(not self.OrderBy(predicate_name), result == '')",
                # every key once, in order, comma after a key unless the next item is DESC,
                # DESC attached to its key
                "implies(self.OrderBy(predicate_name), result == ' ORDER BY ' + ' '.join("
                "[ob_item(self.OrderBy(predicate_name), k) "
                " for k in range(len(self.OrderBy(predicate_name)))]))"],
       spec_funcs={'ob_item': (['ob', 'k'],
                               "ob[k] + ',' if k + 1 < len(ob) and ob[k + 1] != 'DESC' else ob[k]")},
       native_env={'ob_item': ob_item},
       loops={0: {'inv': ["len(result) == _i0",
                          "all(result[j] == ob_item(order_by, j) for j in range(_i0))"]}},
       native=gen_order),

  unit(F, 'Annotations.NoInject', pure=True, props=['C18', 'C08'],
       params=['predicate_name'], types={'predicate_name': 'str'}, fields=ANN, returns='bool',
       requires=["'@NoInject' in self.annotations"],
       ensures=["result == (predicate_name in self.annotations['@NoInject'])"]),
  unit(F, 'Annotations.ForceWith', pure=True, props=['C18', 'C08'],
       params=['predicate_name'], types={'predicate_name': 'str'}, fields=ANN, returns='bool',
       requires=["'@With' in self.annotations"],
       ensures=["result == (predicate_name in self.annotations['@With'])"]),
  unit(F, 'Annotations.ForceNoWith', pure=True, props=['C08'],
       params=['predicate_name'], types={'predicate_name': 'str'}, fields=ANN, returns='bool',
       requires=["'@NoWith' in self.annotations"],
       ensures=["result == (predicate_name in self.annotations['@NoWith'])"]),

  unit(F, 'Annotations.OkInjection', props=['C18', 'C08'],
       params=['predicate_name'], types={'predicate_name': 'str'}, fields=ANN, returns='bool',
       requires=LIMIT_PRE + ORDER_PRE + ["'@Ground' in self.annotations",
                             "'@NoInject' in self.annotations", "'@With' in self.annotations"],
       ensures=[
           # never inlined when a limit is set -- K = 0 included -- or an order is requested
           "implies(self.LimitOf(predicate_name) is not None, not result)",
           "implies(self.OrderBy(predicate_name), not result)",
           "implies(self.Ground(predicate_name) is not None, not result)",
           "implies(self.NoInject(predicate_name), not result)",
           "implies(self.ForceWith(predicate_name), not result)",
           "implies(self.LimitOf(predicate_name) is None and not self.OrderBy(predicate_name) and "
           "self.Ground(predicate_name) is None and not self.NoInject(predicate_name) and "
           "not self.ForceWith(predicate_name), result)"],
       # LimitOf is consulted (and may reject a malformed @Limit) only when no order is requested
       raises={'RuleCompileException': "not self.OrderBy(predicate_name) and (%s)"
               % LIMIT_RAISES['RuleCompileException']},
       native=gen_inject),
]
