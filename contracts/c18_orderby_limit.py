"""C18 — @OrderBy / @Limit clause construction and non-inlining (compiler/universe.py)."""
from vlib.units import unit

ANN = {'self.annotations': 'dict[str,dict[str,dict[str,val]]]'}
F = 'compiler/universe.py'

LIMIT_PRE = ["'@Limit' in self.annotations",
             # established by ExtractAnnotations for every @Limit rule (positional args only)
             "implies(predicate_name in self.annotations['@Limit'], "
             "FieldValuesAsList(self.annotations['@Limit'][predicate_name]) is not None)"]
LIMIT_RAISES = {'RuleCompileException':
                "predicate_name in self.annotations['@Limit'] and ("
                "len(FieldValuesAsList(self.annotations['@Limit'][predicate_name])) != 1 or "
                "not isinstance(FieldValuesAsList(self.annotations['@Limit'][predicate_name])[0], int))"}


ORDER_PRE = ["'@OrderBy' in self.annotations",
             # established by ExtractAnnotations (positional arguments only)
             "implies(predicate_name in self.annotations['@OrderBy'], "
             "FieldValuesAsList(self.annotations['@OrderBy'][predicate_name]) is not None)"]


def mk_ann(mod, limit=None, order_by=None, ground=False, noinject=False, with_=False, nowith=False):
  a = mod.Annotations.__new__(mod.Annotations)
  d = {k: {} for k in mod.Annotations.ANNOTATING_PREDICATES}
  if limit is not None:
    d['@Limit']['P'] = dict({str(i + 1): v for i, v in enumerate(limit)}, __rule_text='@Limit(P,..)')
  if order_by is not None:
    d['@OrderBy']['P'] = dict({str(i + 1): v for i, v in enumerate(order_by)}, __rule_text='@OrderBy(P,..)')
  if ground:
    d['@Ground']['P'] = {'__rule_text': '@Ground(P)'}
  if noinject:
    d['@NoInject']['P'] = {'__rule_text': '@NoInject(P)'}
  if with_:
    d['@With']['P'] = {'__rule_text': '@With(P)'}
  if nowith:
    d['@NoWith']['P'] = {'__rule_text': '@NoWith(P)'}
  d['@Engine']['sqlite'] = {'__rule_text': '@Engine("sqlite")'}
  a.annotations = d
  a.default_engine = 'sqlite'
  a.user_flags = {}
  a.flag_values = {}
  return a


LIMITS = [None, [0], [1], [2], [7], [-1], [1000000], [1, 2], [], ['x'], [None]]
ORDERS = [None, [], ['a'], ['a', 'DESC'], ['a', 'b'], ['a', 'DESC', 'b'], ['a', 'b', 'DESC'],
          ['a', 'DESC', 'b', 'DESC'], ['col0', 'a', 'DESC', 'logica_value'], ['a', 'ASC']]


def gen_limit(tier, mod):
  for lim in LIMITS:
    for name in ('P', 'Q'):
      yield {'args': [name], 'self': mk_ann(mod, limit=lim), 'show': {'@Limit(P,...)': lim, 'asked': name}}


def gen_order(tier, mod):
  for ob in ORDERS:
    for name in ('P', 'Q'):
      yield {'args': [name], 'self': mk_ann(mod, order_by=ob), 'show': {'@OrderBy(P,...)': ob, 'asked': name}}


def gen_inject(tier, mod):
  import itertools
  for lim in (None, [0], [1], [5]):
    for ob in (None, [], ['a'], ['a', 'DESC']):
      for g, ni, w in itertools.product((False, True), repeat=3):
        yield {'args': ['P'], 'self': mk_ann(mod, limit=lim, order_by=ob, ground=g, noinject=ni, with_=w),
               'show': {'limit': lim, 'order_by': ob, 'ground': g, 'noinject': ni, 'with': w}}


def ob_item(ob, k):
  return ob[k] + ',' if k + 1 < len(ob) and ob[k + 1] != 'DESC' else ob[k]


UNITS = [
  # FieldValuesAsList: assumed (external) contract; its body uses copy.deepcopy + del on a dict.
  unit(F, 'FieldValuesAsList', external=True, pure=True, params=['field_values'],
       types={'field_values': 'dict[str,val]'}, returns='opt[list[val]]', ensures=[]),
  unit(F, 'Annotations.Ground', external=True, pure=True, params=['predicate_name'],
       types={'predicate_name': 'str'}, fields=ANN, returns='opt[GroundT]',
       requires=["'@Ground' in self.annotations"],
       ensures=["(result is None) == (predicate_name not in self.annotations['@Ground'])"]),

  unit(F, 'Annotations.LimitOf', pure=True, props=['C18'],
       params=['predicate_name'], types={'predicate_name': 'str'}, fields=ANN,
       returns='opt[val]', requires=LIMIT_PRE,
       ensures=["(result is None) == (predicate_name not in self.annotations['@Limit'])",
                "implies(result is not None, isinstance(result, int))",
                "implies(result is not None, "
                "result == FieldValuesAsList(self.annotations['@Limit'][predicate_name])[0])"],
       raises=LIMIT_RAISES, native=gen_limit),

  unit(F, 'Annotations.LimitClause', props=['C18'],
       params=['predicate_name'], types={'predicate_name': 'str'}, fields=ANN, returns='str',
       requires=LIMIT_PRE + [
           # `@Limit(P, true)` is outside the property's "all K" (K an integer)
           "not isinstance(self.LimitOf(predicate_name), bool)"],
       ensures=["implies(self.LimitOf(predicate_name) is None, result == '')",
                # the property: for every K (0 included) the clause is ' LIMIT K'
                "implies(self.LimitOf(predicate_name) is not None, "
                "result == ' LIMIT ' + str(intval(self.LimitOf(predicate_name))))"],
       raises=LIMIT_RAISES, native=gen_limit),

  unit(F, 'Annotations.OrderBy', pure=True, props=['C18'],
       params=['predicate_name'], types={'predicate_name': 'str'}, fields=ANN,
       returns='opt[list[val]]',
       requires=ORDER_PRE,
       ensures=["(result is None) == (predicate_name not in self.annotations['@OrderBy'])",
                "implies(result is not None, "
                "result == FieldValuesAsList(self.annotations['@OrderBy'][predicate_name]))"],
       native=gen_order),

  unit(F, 'Annotations.OrderByStr', external=True, pure=True, params=['predicate_name'],
       types={'predicate_name': 'str'}, fields=ANN, returns='opt[list[str]]', ensures=[]),

  unit(F, 'Annotations.OrderByClause', props=['C18'],
       params=['predicate_name'], types={'predicate_name': 'str'}, fields=ANN, returns='str',
       locals={'result': 'list[str]'},
       # typing assumption: the keys of @OrderBy are strings (column names / 'DESC'); the string
       # view of OrderBy() is modelled by retyping the callee below
       retype={'Annotations.OrderBy': 'Annotations.OrderByStr'},
       requires=["'@OrderBy' in self.annotations"],
       ensures=["implies(not self.OrderBy(predicate_name), result == '')",
                # every key once, in order, comma after a key unless the next item is DESC,
                # DESC attached to its key
                "implies(self.OrderBy(predicate_name), result == ' ORDER BY ' + ' '.join("
                "[ob_item(self.OrderBy(predicate_name), k) "
                " for k in range(len(self.OrderBy(predicate_name)))]))"],
       spec_funcs={'ob_item': (['ob', 'k'],
                               "ob[k] + ',' if k + 1 < len(ob) and ob[k + 1] != 'DESC' else ob[k]")},
       native_env={'ob_item': ob_item},
       loops={0: {'inv': ["len(result) == _i0",
                          "all(result[j] == ob_item(order_by, j) for j in range(_i0))"]}},
       native=gen_order),

  unit(F, 'Annotations.NoInject', pure=True, props=['C18', 'C08'],
       params=['predicate_name'], types={'predicate_name': 'str'}, fields=ANN, returns='bool',
       requires=["'@NoInject' in self.annotations"],
       ensures=["result == (predicate_name in self.annotations['@NoInject'])"]),
  unit(F, 'Annotations.ForceWith', pure=True, props=['C18', 'C08'],
       params=['predicate_name'], types={'predicate_name': 'str'}, fields=ANN, returns='bool',
       requires=["'@With' in self.annotations"],
       ensures=["result == (predicate_name in self.annotations['@With'])"]),
  unit(F, 'Annotations.ForceNoWith', pure=True, props=['C08'],
       params=['predicate_name'], types={'predicate_name': 'str'}, fields=ANN, returns='bool',
       requires=["'@NoWith' in self.annotations"],
       ensures=["result == (predicate_name in self.annotations['@NoWith'])"]),

  unit(F, 'Annotations.OkInjection', props=['C18', 'C08'],
       params=['predicate_name'], types={'predicate_name': 'str'}, fields=ANN, returns='bool',
       requires=LIMIT_PRE + ORDER_PRE + ["'@Ground' in self.annotations",
                             "'@NoInject' in self.annotations", "'@With' in self.annotations"],
       ensures=[
           # never inlined when a limit is set -- K = 0 included -- or an order is requested
           "implies(self.LimitOf(predicate_name) is not None, not result)",
           "implies(self.OrderBy(predicate_name), not result)",
           "implies(self.Ground(predicate_name) is not None, not result)",
           "implies(self.NoInject(predicate_name), not result)",
           "implies(self.ForceWith(predicate_name), not result)",
           "implies(self.LimitOf(predicate_name) is None and not self.OrderBy(predicate_name) and "
           "self.Ground(predicate_name) is None and not self.NoInject(predicate_name) and "
           "not self.ForceWith(predicate_name), result)"],
       # LimitOf is consulted (and may reject a malformed @Limit) only when no order is requested
       raises={'RuleCompileException': "not self.OrderBy(predicate_name) and (%s)"
               % LIMIT_RAISES['RuleCompileException']},
       native=gen_inject),
]
