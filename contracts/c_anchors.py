"""Contracts (bounded stand-ins) on further mechanism functions named in the properties' anchors."""
import copy
import itertools
import os
import shutil
import tempfile

from vlib.units import unit
from vlib import mk

U = 'compiler/universe.py'
P = 'parser_py/parse.py'
CL = 'common/concertina_lib.py'


# ---------------------------------------------------------------- C17: Ground / Dataset / AttachedDatabases
def mk_ann(mod, engine='sqlite', ground=None, dataset=None, attach=None):
  a = mk.annotations(mod)
  d = {k: {} for k in mod.Annotations.ANNOTATING_PREDICATES}
  d['@Engine'][engine] = {'__rule_text': '@Engine'}
  for p, g in (ground or {}).items():
    d['@Ground'][p] = dict(g, __rule_text='@Ground(%s)' % p)
  if dataset:
    d['@Dataset'][dataset] = {'__rule_text': '@Dataset'}
  for k, v in (attach or {}).items():
    d['@AttachDatabase'][k] = {'1': v, '__rule_text': '@AttachDatabase'}
  a.annotations = d
  a.default_engine = engine
  a.user_flags = {}
  a.flag_values = {}
  return a


def want_dataset(engine, dataset, attach):
  if dataset:
    return dataset
  if engine in ('psql', 'duckdb'):
    return 'logica_home'
  if engine == 'clickhouse':
    return 'default'
  if engine == 'sqlite' and 'logica_home' in (attach or {}):
    return 'logica_home'
  return 'logica_test'


def gen_ground(tier, mod):
  for engine in ('sqlite', 'duckdb', 'psql', 'bigquery', 'clickhouse'):
    for dataset in (None, 'mydata'):
      for attach in (None, {'logica_home': '/x/h.db'}, {'logica_test': '/x/t.db'}, {'other': '/x/o.db'}):
        for g in ({}, {'1': 'explicit.tbl'}, {'overwrite': False}, {'1': {'predicate_name': 'Q'}}):
          grounds = {'P': g, 'Q': {'1': 'qq.table'}}
          a = mk_ann(mod, engine, grounds, dataset, attach)
          if 'predicate_name' in str(g):
            wn = 'qq.table'
          else:
            wn = g.get('1', want_dataset(engine, dataset, attach) + '.P')
          for name in ('P', 'Zz'):
            yield {'args': [name], 'self': a,
                   'env': {'want_name': wn if name == 'P' else None, 'want_overwrite': g.get('overwrite', True)},
                   'show': {'engine': engine, '@Dataset': dataset, '@AttachDatabase': attach, '@Ground(P,...)': g, 'asked': name}}


def gen_attached(tier, mod):
  for engine in ('sqlite', 'duckdb'):
    for attach in ({}, {'logica_home': '/x/h.db'}, {'logica_test': '/x/t.db'}, {'other': '/x/o.db', 'logica_test': '/x/t.db'}):
      for has_ground in (False, True):
        a = mk_ann(mod, engine, {'P': {}} if has_ground else {}, None, attach)
        want = dict(attach)
        if engine == 'sqlite' and has_ground and 'logica_test' not in want:
          want['logica_test'] = ':memory:'
        yield {'args': [], 'self': a, 'env': {'want': want},
               'show': {'engine': engine, '@AttachDatabase': attach, 'has @Ground': has_ground}}


# ---------------------------------------------------------------- C19: annotation validation
CHECKED = ['@Limit', '@OrderBy', '@NoInject', '@CompileAsTvf', '@With', '@NoWith', '@CompileAsUdf']


def gen_check_objects(tier, mod):
  rules = [{'head': {'predicate_name': 'P'}}, {'head': {'predicate_name': 'Q'}}]
  for ann in mod.Annotations.ANNOTATING_PREDICATES:
    for target in ('P', 'Missing', 'G', 'M'):
      a = mk_ann(mod, 'sqlite', {'G': {}})
      a.annotations['@Make']['M'] = {'__rule_text': 'M := F()'}
      if ann not in ('@Ground', '@Make', '@Engine'):
        a.annotations[ann][target] = {'1': 1, '__rule_text': '%s(%s)' % (ann, target)}
      bad = ann in CHECKED and target == 'Missing'
      yield {'args': [rules], 'self': a, 'env': {'bad': bad}, 'show': {'annotation': ann, 'target': target}}


# ---------------------------------------------------------------- C12: SplitImport
def gen_split_import(tier, mod):
  for path in ('a.Pred', 'a.b.Pred', 'dir.sub.file.Pred'):
    for syn in (None, 'Alias', 'P2'):
      s = path + ((' as ' + syn) if syn else '')
      parts = path.split('.')
      yield {'args': [mod.HeritageAwareString(s)], 'env': {'want': ('.'.join(parts[:-1]), parts[-1], syn)}, 'show': s}


# ---------------------------------------------------------------- C18: denotations become annotations
def strip_h(x):
  if isinstance(x, dict):
    return {k: strip_h(v) for k, v in x.items() if k not in ('expression_heritage', 'full_text')}
  if isinstance(x, list):
    return [strip_h(v) for v in x]
  return str(x) if isinstance(x, str) else x


def gen_denotations(tier, mod):
  cases = [('P(x, y) order_by("col0") :- Q(x, y);', ['@OrderBy(P, "col0");']),
           ('P(x, y) limit(3) :- Q(x, y);', ['@Limit(P, 3);']),
           ('P(x, y) order_by("col0", "col1 desc") limit(0) :- Q(x, y);', ['@OrderBy(P, "col0", "col1 desc");', '@Limit(P, 0);']),
           ('P(a: x) distinct order_by("a") limit(2) :- Q(x, y);', ['@OrderBy(P, "a");', '@Limit(P, 2);'])]
  for short, anns in cases:
    want = sorted(repr(strip_h(r['head'])) for a in anns for r in mod.ParseFile(a)['rule'])
    rule = mod.ParseRule(mod.HeritageAwareString(short.rstrip(';')))
    yield {'args': [rule], 'env': {'want': want, 'strip_h': strip_h, 'pname': 'P'}, 'show': short}


# ---------------------------------------------------------------- C14: iterations bookkeeping, stop signal
def gen_stop_signal(tier, mod):
  base = tempfile.mkdtemp(prefix='verif_c14s_')
  try:
    empty, full = os.path.join(base, 'empty'), os.path.join(base, 'full')
    open(empty, 'w').close()
    open(full, 'w').write('stop')
    for signal, want in ((None, False), (os.path.join(base, 'absent'), False), (empty, False), (full, True), ('', False)):
      for seen in (False, True):
        c = mk.concertina(mod)
        c.action_iteration = {'A': 'it'}
        c.iteration_stop_signal = {'it': signal}
        c.wrench_in_gears = {signal} if (seen and signal) else set()
        yield {'args': ['A'], 'self': c, 'env': {'want': want or bool(seen and signal)},
               'show': {'signal': signal and os.path.basename(signal), 'seen_before': seen}}
  finally:
    shutil.rmtree(base, ignore_errors=True)


def gen_cl_rename(tier, mod):
  m = {'P': 'sql p', 'Q': 'sql q'}
  e = {('P', 'Q'), ('T', 'P'), ('Q', 'R')}
  d = {('D', 'P'), ('P', 'X')}
  for frm in ('P', 'Q', 'Zz'):
    r = lambda x: ('N' if x == frm else x)
    yield {'args': [dict(m), set(e), set(d), frm, 'N'],
           'env': {'want': ({r(k): v for k, v in m.items()}, {(r(a), r(b)) for a, b in e}, {(r(a), r(b)) for a, b in d})},
           'show': {'from': frm}}


UNITS = [
  unit(U, 'Annotations.Ground', name='Annotations.Ground[bounded]', props=['C17'], deductive=False, params=['predicate_name'],
       # table name = annotation argument, else <dataset>.<predicate>; a predicate grounded onto another takes its table
       ensures=["(result is None) == (want_name is None)",
                "implies(result is not None, result.table_name == want_name and result.overwrite == want_overwrite)"],
       native=gen_ground),
  unit(U, 'Annotations.AttachedDatabases', props=['C17'], deductive=False, params=[],
       # the user's attachments are returned unchanged; sqlite gets an in-memory logica_test only when the user
       # attached none and something is grounded
       ensures=["result == want"], native=gen_attached),
  unit(U, 'Annotations.CheckAnnotatedObjects', name='Annotations.CheckAnnotatedObjects[bounded]', props=['C19'], deductive=False, params=['rules'],
       ensures=[], raises={'RuleCompileException': "bad"}, native=gen_check_objects),
  unit(P, 'SplitImport', props=['C12'], deductive=False, params=['import_str'],
       ensures=["(str(result[0]), str(result[1]), result[2] and str(result[2])) == want"], native=gen_split_import),
  unit(P, 'AnnotationsFromDenotations', props=['C18'], deductive=False, params=['rule'],
       # order_by(...) / limit(...) in a head are the @OrderBy / @Limit annotations of that predicate
       ensures=["sorted(repr(strip_h(r['head'])) for r in result) == want"], native=gen_denotations),
  unit(CL, 'Concertina.ActionIterationWantsToStopBySignal', name='Concertina.ActionIterationWantsToStopBySignal[bounded]',
       props=['C14'], deductive=False, params=['action'],
       # stop iff the signal file exists and is non-empty, or the signal was seen before
       ensures=["result == want"], native=gen_stop_signal),
  unit(CL, 'RenamePredicate', name='concertina.RenamePredicate', props=['C14'], deductive=False,
       params=['table_to_export_map', 'dependency_edges', 'data_dependency_edges', 'from_name', 'to_name'],
       ensures=["result == want"], native=gen_cl_rename),
]


# ---------------------------------------------------------------------------------------------------------------
# Annotations.AttachedDatabases proved: the user's @AttachDatabase entries are returned unchanged, and the only entry
# ever added is the in-memory `logica_test` of SQLite programs that ground something and did not attach a database
# of that name themselves (so a user-attached `logica_test` file is never shadowed).
ADB = "self.annotations['@AttachDatabase']"
GROUNDED = "('@Ground' in self.annotations and any(True for g in self.annotations['@Ground']))"

UNITS += [
  unit(U, 'AnnotationError', external=True, params=['message', 'annotation_value'], types={'message': 'str', 'annotation_value': 'dict[str,val]'},
       fields={}, requires=[], ensures=[], raises={'RuleCompileException': 'True'}),
  unit(U, 'Annotations.Engine', external=True, pure=True, params=[], fields={'self.annotations': 'dict[str,dict[str,dict[str,val]]]'},
       returns='str', requires=[], ensures=[]),
  unit(U, 'Annotations.AttachedDatabases', name='Annotations.AttachedDatabases[proved]', props=['C17'], params=[],
       fields={'self.annotations': 'dict[str,dict[str,dict[str,val]]]'}, modifies=[], returns='dict[str,val]',
       locals={'result': 'dict[str,val]'}, calls={'AnnotationError': 'AnnotationError'},
       exceptions=['RuleCompileException'], may_raise={'RuleCompileException': "any('1' not in ADB[k] for k in ADB)".replace('ADB', ADB)},
       requires=["'@AttachDatabase' in self.annotations"],
       ensures=[
           "all(k in result and result[k] == ADB[k]['1'] for k in ADB)".replace('ADB', ADB),
           "all(k in ADB or (k == 'logica_test' and result[k] == ':memory:' and self.Engine() == 'sqlite' and GROUNDED) "
           "for k in result)".replace('ADB', ADB).replace('GROUNDED', GROUNDED),
           "implies(self.Engine() == 'sqlite' and 'logica_test' not in ADB and GROUNDED, "
           "'logica_test' in result and result['logica_test'] == ':memory:')".replace('ADB', ADB).replace('GROUNDED', GROUNDED)],
       native=gen_attached,
       loops={0: {'inv': ["all(k in result and result[k] == ADB[k]['1'] for k in _visited0)".replace('ADB', ADB),
                          "all(k in _visited0 for k in result)"]}}),
]
