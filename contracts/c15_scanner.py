"""C15 — stripping and span bookkeeping of parser_py/parse.py."""
from vlib.units import unit

F = 'parser_py/parse.py'

LOHI_AXIOMS = [
    # lo(s): index of the first non-space character (len(s) if none); hi(s): one past the last one
    "0 <= lo(s) and lo(s) <= len(s)",
    "all(isspace(s[k]) for k in range(lo(s)))",
    "implies(lo(s) < len(s), not isspace(s[lo(s)]))",
    "lo(s) <= hi(s) and hi(s) <= len(s)",
    "all(isspace(s[k]) for k in range(hi(s), len(s)))",
    "implies(hi(s) > lo(s), not isspace(s[hi(s) - 1]))",
]


def lo(s):
  i = 0
  while i < len(s) and s[i].isspace():
    i += 1
  return i


def hi(s):
  j = len(s)
  while j > lo(s) and s[j - 1].isspace():
    j -= 1
  return j


ALPHA = ' \ta('


def strings(n):
  import itertools
  for k in range(n + 1):
    for t in itertools.product(ALPHA, repeat=k):
      yield ''.join(t)


def gen_strip(tier, mod):
  for s in strings(5 if tier == 'quick' else 7):
    yield {'args': [mod.HeritageAwareString(s)], 'show': repr(s)}


def gen_slice(tier, mod):
  n = 3 if tier == 'quick' else 4
  for s in strings(n):
    h0 = mod.HeritageAwareString('<' + s + '>')
    for a in range(0, len(s) + 3):
      for b in range(0, len(s) + 3):
        h1 = h0[1 + a: 1 + b]          # an inner string with non-trivial start/stop
        for start in range(0, len(h1) + 2):
          for stop in range(-len(h1) - 0, len(h1) + 3):
            yield {'args': [start, stop], 'self': h1,
                   'show': {'heritage': str(h0), 'self': (str(h1), h1.start, h1.stop), 'start': start, 'stop': stop}}


UNITS = [
  unit(F, 'StripSpaces', props=['C15'], params=['s'], types={'s': 'str'}, returns='str',
       ufs={'lo': (['str'], 'int'), 'hi': (['str'], 'int')},
       native_env={'lo': lo, 'hi': hi},
       axioms=LOHI_AXIOMS,
       ensures=["result == s[lo(s):hi(s)]",
                "len(result) == 0 or not isspace(result[0])",
                "len(result) == 0 or not isspace(result[len(result) - 1])"],
       loops={0: {'inv': ["0 <= left_idx and left_idx <= len(s)",
                          "all(isspace(s[k]) for k in range(left_idx))",
                          "right_idx == len(s) - 1"],
                  'dec': "len(s) - left_idx"},
              1: {'inv': ["left_idx == lo(s)",
                          "left_idx - 1 <= right_idx and right_idx <= len(s) - 1",
                          "all(isspace(s[k]) for k in range(right_idx + 1, len(s)))"],
                  'dec': "right_idx + 1"}},
       native=gen_strip),

  unit(F, 'HeritageAwareString.GetSlice', props=['C15'], params=['start', 'stop'],
       types={'start': 'int', 'stop': 'int'},
       fields={'self.text': 'str', 'self.start': 'int', 'self.stop': 'int', 'self.heritage': 'str'},
       self_str='text',
       constructors={'HeritageAwareString': {'text': 'arg0', 'start': '0', 'stop': 'len(arg0)',
                                            'heritage': 'arg0'}},
       returns='rec[HeritageAwareString]',
       native_env={'text_of': str},
       requires=[
           # span invariant of the receiver
           "self.heritage[self.start:self.stop] == text_of(self)",
           "self.start >= 0 and self.stop >= 0",
           # weakest precondition on the arguments (DESIGN.md C15): the parser's other slices
           # (s[-1:], s[-3:]) only feed comparisons
           "start >= 0 and stop >= 0 - len(text_of(self))"],
       ensures=["text_of(result) == text_of(self)[start:stop]",
                "result.heritage == self.heritage",
                # every span is literally the text at that position
                "result.heritage[result.start:result.stop] == text_of(result)",
                "result.start >= 0 and result.stop >= 0"],
       native=gen_slice),
]
