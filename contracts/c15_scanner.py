"""C15 — stripping and span bookkeeping of parser_py/parse.py."""
from vlib.units import unit

F = 'parser_py/parse.py'

LOHI_AXIOMS = [
    # lo(s): index of the first non-space character (len(s) if none); hi(s): one past the last one
    "0 <= lo(s) and lo(s) <= len(s)",
    "all(isspace(s[k]) for k in range(lo(s)))",
    "implies(lo(s) < len(s), not isspace(s[lo(s)]))",
    "lo(s) <= hi(s) and hi(s) <= len(s)",
    "all(isspace(s[k]) for k in range(hi(s), len(s)))",
    "implies(hi(s) > lo(s), not isspace(s[hi(s) - 1]))",
]


def lo(s):
  i = 0
  while i < len(s) and s[i].isspace():
    i += 1
  return i


def hi(s):
  j = len(s)
  while j > lo(s) and s[j - 1].isspace():
    j -= 1
  return j


ALPHA = ' \ta('


def strings(n):
  import itertools
  for k in range(n + 1):
    for t in itertools.product(ALPHA, repeat=k):
      yield ''.join(t)


def gen_strip(tier, mod):
  for s in strings(5 if tier == 'quick' else 7):
    yield {'args': [mod.HeritageAwareString(s)], 'show': repr(s)}


def gen_slice(tier, mod):
  n = 3 if tier == 'quick' else 4
  for s in strings(n):
    h0 = mod.HeritageAwareString('<' + s + '>')
    for a in range(0, len(s) + 3):
      for b in range(0, len(s) + 3):
        h1 = h0[1 + a: 1 + b]          # an inner string with non-trivial start/stop
        for start in range(0, len(h1) + 2):
          for stop in range(-len(h1) - 0, len(h1) + 3):
            yield {'args': [start, stop], 'self': h1,
                   'show': {'heritage': str(h0), 'self': (str(h1), h1.start, h1.stop), 'start': start, 'stop': stop}}


UNITS = [
  unit(F, 'StripSpaces', props=['C15'], params=['s'], types={'s': 'str'}, returns='str',
       ufs={'lo': (['str'], 'int'), 'hi': (['str'], 'int')},
       native_env={'lo': lo, 'hi': hi},
       axioms=LOHI_AXIOMS,
       ensures=["result == s[lo(s):hi(s)]",
                "len(result) == 0 or not isspace(result[0])",
                "len(result) == 0 or not isspace(result[len(result) - 1])"],
       loops={0: {'inv': ["0 <= left_idx and left_idx <= len(s)",
                          "all(isspace(s[k]) for k in range(left_idx))",
                          "right_idx == len(s) - 1"],
                  'dec': "len(s) - left_idx"},
              1: {'inv': ["left_idx == lo(s)",
                          "left_idx - 1 <= right_idx and right_idx <= len(s) - 1",
                          "all(isspace(s[k]) for k in range(right_idx + 1, len(s)))"],
                  'dec': "right_idx + 1"}},
       native=gen_strip),

  unit(F, 'HeritageAwareString.GetSlice', props=['C15'], params=['start', 'stop'],
       types={'start': 'int', 'stop': 'int'},
       fields={'self.text': 'str', 'self.start': 'int', 'self.stop': 'int', 'self.heritage': 'str'},
       self_str='text',
       constructors={'HeritageAwareString': {'text': 'arg0', 'start': '0', 'stop': 'len(arg0)',
                                            'heritage': 'arg0'}},
       returns='rec[HeritageAwareString]',
       native_env={'text_of': str},
       requires=[
           # span invariant of the receiver
           "self.heritage[self.start:self.stop] == text_of(self)",
           "self.start >= 0 and self.stop >= 0",
           # weakest precondition on the arguments (DESIGN.md C15): the parser's other slices
           # (s[-1:], s[-3:]) only feed comparisons
           "start >= 0 and stop >= 0 - len(text_of(self))"],
       ensures=["text_of(result) == text_of(self)[start:stop]",
                "result.heritage == self.heritage",
                # every span is literally the text at that position
                "result.heritage[result.start:result.stop] == text_of(result)",
                "result.start >= 0 and result.stop >= 0"],
       native=gen_slice),
]


# ---------------------------------------------------------------- scanner: Traverse against Σ
OPEN = '({['
CLOSE = {')': '(', '}': '{', ']': '['}


def sigma(s):
  """Spec of the scanner as a mode automaton (DESIGN.md appendix A.1): yields (idx, state, status).
  Modes: code, '#' comment, '/*' comment, "..." , '...' with backslash escape, `...`, triple quote.
  Inside a string or comment no character is syntax."""
  out = []
  stack = ''
  mode = ''
  i = 0
  n = len(s)
  while i < n:
    c = s[i]
    if mode == '#':
      if c == '\n':
        mode = ''
        out.append((i, stack, 'OK'))
      i += 1
      continue
    if mode == '/':
      if s[i:i + 2] == '*/':
        mode = ''
        i += 2
      else:
        i += 1
      continue
    if mode == '"':
      if c == '\n':
        out.append((i, None, 'EOL in string'))
      if c == '"':
        mode = ''
      out.append((i, stack + mode, 'OK'))
      i += 1
      continue
    if mode == "'":
      if c == "'":
        mode = ''
      elif c == '\\':
        mode = "'\\"
      out.append((i, stack + mode, 'OK'))
      i += 1
      continue
    if mode == "'\\":
      mode = "'"
      out.append((i, stack + mode, 'OK'))
      i += 1
      continue
    if mode == '`':
      if c == '`':
        mode = ''
      out.append((i, stack + mode, 'OK'))
      i += 1
      continue
    if mode == '3':
      if s[i:i + 3] == '"""':
        mode = ''
        for k in range(3):
          out.append((i + k, stack, 'OK'))
        i += 3
      else:
        out.append((i, stack + '3', 'OK'))
        i += 1
      continue
    if c == '#':
      mode = '#'
      i += 1
      continue
    if s[i:i + 3] == '"""':
      mode = '3'
      for k in range(3):
        out.append((i + k, stack + '3', 'OK'))
      i += 3
      continue
    if s[i:i + 2] == '/*':
      mode = '/'
      i += 2
      continue
    if c in '"\'`':
      mode = c
      out.append((i, stack + mode, 'OK'))
      i += 1
      continue
    if c in OPEN:
      stack += c
    elif c in CLOSE:
      if stack and stack[-1] == CLOSE[c]:
        stack = stack[:-1]
      else:
        out.append((i, None, 'Unmatched'))
        return out
    out.append((i, stack, 'OK'))
    i += 1
  return out


SCAN_ALPHA = 'a(])"\'`\\#/*\n'


def scan_strings(tier):
  import itertools
  n = 4 if tier == 'quick' else 5
  for k in range(n + 1):
    for t in itertools.product(SCAN_ALPHA, repeat=k):
      yield ''.join(t)
  # longer hand-picked shapes
  for s in ['f("a)b", \'c\\\'d\') # x(\n', 'a /* ( */ b', '"""a"b"""(', "T('a\\)b')", "'\\\\'(", '[{()}]',
            '"\\")', "`a(`)", 'x # c\n(y)', '"a\nb"', "'a\\", '/* unterminated (', '"""x""', 'P(x) :- Q("#"), R(\'/*\');']:
    yield s


def gen_traverse(tier, mod):
  for s in scan_strings(tier):
    yield {'args': [s], 'env': {'sigma': sigma}, 'show': repr(s)}


def removed(s):
  return ''.join(s[i] for (i, st, status) in sigma(s) if status == 'OK')


def bad(s):
  return any(status != 'OK' for (i, st, status) in sigma(s))


def whole(s):
  y = sigma(s)
  if not y:
    return True
  return y[-1][2] == 'OK' and y[-1][1] == ''


UNITS += [
  unit(F, 'Traverse', props=['C15', 'C19'], deductive=False, params=['s'], yields='tuple',
       # the scanner is the mode automaton Σ: strings and comments are opaque, brackets are tracked
       # only in code, indices increase, Unmatched ends the scan
       ensures=["result == sigma(s)"], native=gen_traverse),
  unit(F, 'RemoveComments', props=['C15', 'C19'], deductive=False, params=['s'],
       native_env={'removed': removed, 'bad': bad},
       ensures=["result == removed(s)"],
       raises={'ParsingException': "bad(s)"}, native=gen_traverse),
  unit(F, 'IsWhole', props=['C15'], deductive=False, params=['s'],
       native_env={'whole': whole},
       ensures=["result == whole(s)"], native=gen_traverse),
]


# ---------------------------------------------------------------- C++ bridge: byte spans -> character spans
def gen_decode(tier, mod):
  texts = ['abc', 'aé', 'éa', 'T("é∞", y);', 'a😀b(c)', '∞', 'x == "é" ++ y, "z"', 'плюс(1)']
  for t in texts:
    b = t.encode('utf-8')
    bounds = [i for i in range(len(b) + 1) if i == len(b) or (b[i] & 0xC0) != 0x80]
    for i in bounds:
      for j in bounds:
        if i <= j:
          for legacy in (False, True):
            span = {'__hs': 0, 'start': i, 'stop': j} if legacy else ['__hs', 0, i, j]
            node = {'__string_table': [t], 'tree': {'expression_heritage': span, 'l': [{'full_text': span}]}}
            yield {'args': [node], 'env': {'t': t, 'want': b[i:j].decode('utf-8')},
                   'show': {'text': t, 'byte_span': [i, j], 'legacy_form': legacy}}


UNITS += [
  unit('parser_cpp/logica_parse_cpp.py', '_DecodePooledHeritageOutput', props=['C15'], deductive=False,
       params=['node'],
       # a byte span of the statement becomes the HeritageAwareString of exactly that text, whose
       # character span is literally that text in the statement
       native_env={'eh': lambda r: r['expression_heritage'], 'ft': lambda r: r['l'][0]['full_text']},
       ensures=["str(eh(result)) == want", "eh(result).heritage == t",
                "eh(result).heritage[eh(result).start:eh(result).stop] == want",
                "str(ft(result)) == want and ft(result).heritage[ft(result).start:ft(result).stop] == want"],
       native=gen_decode),
]
