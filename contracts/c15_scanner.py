"""C15 — stripping and span bookkeeping of parser_py/parse.py."""
from vlib.units import unit

F = 'parser_py/parse.py'

LOHI_AXIOMS = [
    # lo(s): index of the first non-space character (len(s) if none); hi(s): one past the last one
    "0 <= lo(s) and lo(s) <= len(s)",
    "all(isspace(s[k]) for k in range(lo(s)))",
    "implies(lo(s) < len(s), not isspace(s[lo(s)]))",
    "lo(s) <= hi(s) and hi(s) <= len(s)",
    "all(isspace(s[k]) for k in range(hi(s), len(s)))",
    "implies(hi(s) > lo(s), not isspace(s[hi(s) - 1]))",
]


def lo(s):
  i = 0
  while i < len(s) and s[i].isspace():
    i += 1
  return i


def hi(s):
  j = len(s)
  while j > lo(s) and s[j - 1].isspace():
    j -= 1
  return j


ALPHA = ' \ta('


def strings(n):
  import itertools
  for k in range(n + 1):
    for t in itertools.product(ALPHA, repeat=k):
      yield ''.join(t)


def gen_strip(tier, mod):
  for s in strings(5 if tier == 'quick' else 7):
    yield {'args': [mod.HeritageAwareString(s)], 'show': repr(s)}


def gen_slice(tier, mod):
  n = 3 if tier == 'quick' else 4
  for s in strings(n):
    h0 = mod.HeritageAwareString('<' + s + '>')
    for a in range(0, len(s) + 3):
      for b in range(0, len(s) + 3):
        h1 = h0[1 + a: 1 + b]          # an inner string with non-trivial start/stop
        for start in range(0, len(h1) + 2):
          for stop in range(-len(h1) - 0, len(h1) + 3):
            yield {'args': [start, stop], 'self': h1,
                   'show': {'heritage': str(h0), 'self': (str(h1), h1.start, h1.stop), 'start': start, 'stop': stop}}


UNITS = [
  unit(F, 'StripSpaces', props=['C15'], params=['s'], types={'s': 'str'}, returns='str',
       ufs={'lo': (['str'], 'int'), 'hi': (['str'], 'int')},
       native_env={'lo': lo, 'hi': hi},
       axioms=LOHI_AXIOMS,
       ensures=["result == s[lo(s):hi(s)]",
                "len(result) == 0 or not isspace(result[0])",
                "len(result) == 0 or not isspace(result[len(result) - 1])"],
       loops={0: {'inv': ["0 <= left_idx and left_idx <= len(s)",
                          "all(isspace(s[k]) for k in range(left_idx))",
                          "right_idx == len(s) - 1"],
                  'dec': "len(s) - left_idx"},
              1: {'inv': ["left_idx == lo(s)",
                          "left_idx - 1 <= right_idx and right_idx <= len(s) - 1",
                          "all(isspace(s[k]) for k in range(right_idx + 1, len(s)))"],
                  'dec': "right_idx + 1"}},
       native=gen_strip),

  unit(F, 'HeritageAwareString.GetSlice', props=['C15'], params=['start', 'stop'],
       types={'start': 'int', 'stop': 'int'},
       fields={'self.text': 'str', 'self.start': 'int', 'self.stop': 'int', 'self.heritage': 'str'},
       self_str='text',
       constructors={'HeritageAwareString': {'text': 'arg0', 'start': '0', 'stop': 'len(arg0)',
                                            'heritage': 'arg0'}},
       returns='rec[HeritageAwareString]',
       native_env={'text_of': str},
       requires=[
           # span invariant of the receiver
           "self.heritage[self.start:self.stop] == text_of(self)",
           "self.start >= 0 and self.stop >= 0",
           # weakest precondition on the arguments (DESIGN.md C15): the parser's other slices
           # (s[-1:], s[-3:]) only feed comparisons
           "start >= 0 and stop >= 0 - len(text_of(self))"],
       ensures=["text_of(result) == text_of(self)[start:stop]",
                "result.heritage == self.heritage",
                # every span is literally the text at that position
                "result.heritage[result.start:result.stop] == text_of(result)",
                "result.start >= 0 and result.stop >= 0"],
       native=gen_slice),
]


# ---------------------------------------------------------------- scanner: Traverse against Σ
OPEN = '({['
CLOSE = {')': '(', '}': '{', ']': '['}


def sigma(s):
  """Spec of the scanner as a mode automaton (DESIGN.md appendix A.1): yields (idx, state, status).
  Modes: code, '#' comment, '/*' comment, "..." , '...' with backslash escape, `...`, triple quote.
  Inside a string or comment no character is syntax."""
  out = []
  stack = ''
  mode = ''
  i = 0
  n = len(s)
  while i < n:
    c = s[i]
    if mode == '#':
      if c == '\n':
        mode = ''
        out.append((i, stack, 'OK'))
      i += 1
      continue
    if mode == '/':
      if s[i:i + 2] == '*/':
        mode = ''
        i += 2
      else:
        i += 1
      continue
    if mode == '"':
      if c == '\n':
        out.append((i, None, 'EOL in string'))
      if c == '"':
        mode = ''
      out.append((i, stack + mode, 'OK'))
      i += 1
      continue
    if mode == "'":
      if c == "'":
        mode = ''
      elif c == '\\':
        mode = "'\\"
      out.append((i, stack + mode, 'OK'))
      i += 1
      continue
    if mode == "'\\":
      mode = "'"
      out.append((i, stack + mode, 'OK'))
      i += 1
      continue
    if mode == '`':
      if c == '`':
        mode = ''
      out.append((i, stack + mode, 'OK'))
      i += 1
      continue
    if mode == '3':
      if s[i:i + 3] == '"""':
        mode = ''
        for k in range(3):
          out.append((i + k, stack, 'OK'))
        i += 3
      else:
        out.append((i, stack + '3', 'OK'))
        i += 1
      continue
    if c == '#':
      mode = '#'
      i += 1
      continue
    if s[i:i + 3] == '"""':
      mode = '3'
      for k in range(3):
        out.append((i + k, stack + '3', 'OK'))
      i += 3
      continue
    if s[i:i + 2] == '/*':
      mode = '/'
      i += 2
      continue
    if c in '"\'`':
      mode = c
      out.append((i, stack + mode, 'OK'))
      i += 1
      continue
    if c in OPEN:
      stack += c
    elif c in CLOSE:
      if stack and stack[-1] == CLOSE[c]:
        stack = stack[:-1]
      else:
        out.append((i, None, 'Unmatched'))
        return out
    out.append((i, stack, 'OK'))
    i += 1
  return out


SCAN_ALPHA = 'a(])"\'`\\#/*\n'


def scan_strings(tier):
  import itertools
  n = 4 if tier == 'quick' else 5
  for k in range(n + 1):
    for t in itertools.product(SCAN_ALPHA, repeat=k):
      yield ''.join(t)
  # longer hand-picked shapes
  for s in ['f("a)b", \'c\\\'d\') # x(\n', 'a /* ( */ b', '"""a"b"""(', "T('a\\)b')", "'\\\\'(", '[{()}]',
            '"\\")', "`a(`)", 'x # c\n(y)', '"a\nb"', "'a\\", '/* unterminated (', '"""x""', 'P(x) :- Q("#"), R(\'/*\');']:
    yield s


def gen_traverse(tier, mod):
  for s in scan_strings(tier):
    yield {'args': [s], 'env': {'sigma': sigma}, 'show': repr(s)}


def removed(s):
  return ''.join(s[i] for (i, st, status) in sigma(s) if status == 'OK')


def bad(s):
  return any(status != 'OK' for (i, st, status) in sigma(s))


def whole(s):
  y = sigma(s)
  if not y:
    return True
  return y[-1][2] == 'OK' and y[-1][1] == ''


UNITS += [
  unit(F, 'Traverse', props=['C15', 'C19'], deductive=False, params=['s'], yields='tuple',
       # the scanner is the mode automaton Σ: strings and comments are opaque, brackets are tracked
       # only in code, indices increase, Unmatched ends the scan
       ensures=["result == sigma(s)"], native=gen_traverse),
  unit(F, 'RemoveComments', props=['C15', 'C19'], deductive=False, params=['s'],
       native_env={'removed': removed, 'bad': bad},
       ensures=["result == removed(s)"],
       raises={'ParsingException': "bad(s)"}, native=gen_traverse),
  unit(F, 'IsWhole', props=['C15'], deductive=False, params=['s'],
       native_env={'whole': whole},
       ensures=["result == whole(s)"], native=gen_traverse),
]



# ---------------------------------------------------------------- Strip / SplitRaw / Split against Σ
def strip_spec(s):
  """Blank-stripping and peeling of outer parentheses that enclose a whole text, until neither applies."""
  while True:
    s = s[lo(s):hi(s)]
    if len(s) >= 2 and s[0] == '(' and s[-1] == ')' and whole(s[1:-1]):
      s = s[1:-1]
    else:
      return s


def split_spec(s, sep):
  """Cuts at the occurrences of sep in code at bracket depth 0 (Σ state empty), outside strings and comments;
  `|` next to another `|` is not a separator; an alphanumeric separator must not be part of a word."""
  parts, start, l = [], 0, len(sep)
  it = iter(sigma(s))
  for idx, state, status in it:
    if not state and s[idx:idx + l] == sep and (len(s) == idx + l or s[idx + l] != '|') and \
        (idx == 0 or s[idx - 1] != '|'):
      if sep.isalnum() and (idx > 0 and s[idx - 1].isalnum() or idx + l < len(s) and s[idx + l].isalnum()):
        continue
      parts.append(s[start:idx])
      for _ in range(l - 1):
        idx, state, status = next(it)
      start = idx + 1
  parts.append(s[start:])
  return parts


SPLIT_CASES = [(',', 'a,( )"|'), ('|', 'a|(,)"'), ('||', 'a|( "'), (':-', 'a:-( "'), ('then', 'then (a'), ('==', 'a=( "'),
               (' in ', 'a in('), ('=', 'a=(<"'), (';', 'a;("#\n')]


def gen_split(tier, mod):
  import itertools
  n = 5 if tier == 'quick' else 6
  for sep, alpha in SPLIT_CASES:
    letters = sorted(set(alpha) - set(sep)) + [sep]          # the separator is one "letter" of the strings
    for k in range(n + 1 - (1 if len(letters) > 6 else 0)):
      for t in itertools.product(letters, repeat=k):
        text = ''.join(t)
        if len(text) <= 9:
          yield {'args': [mod.HeritageAwareString(text), sep], 'env': {'sigma': sigma}, 'show': [text, sep]}
  for text, sep in [('[a,b],[c,d]', ','), ('f(a, "x,y"), g', ','), ('a || b | c', '|'), ('P(x) :- Q(":-")', ':-'),
                    ('if a then (if b then c else d) else e', 'then'), ('athen b then c', 'then'), ('x in y in z', ' in '),
                    ('a, /* , */ b', ','), ('a, # ,\n b', ','), ('"""a,b""", c', ','), ("'a\\',b", ',')]:
    yield {'args': [mod.HeritageAwareString(text), sep], 'env': {'sigma': sigma}, 'show': [text, sep]}


def gen_strip_parens(tier, mod):
  import itertools
  n = 6 if tier == 'quick' else 7
  for k in range(n + 1):
    for t in itertools.product(' a()"', repeat=k):
      yield {'args': [mod.HeritageAwareString(''.join(t))], 'show': repr(''.join(t))}
  for text in ['((a))', '( (a) )', '(a)(b)', '(a) , (b)', ' ( "(" ) ', '(\n (a)\n)', '((a)', '(a))', '( # c\n a )', '(/* ) */ a)',
               "('\\')", '(`(`)', '(""")""")', '( ( ( a ) ) ( b ) )']:
    yield {'args': [mod.HeritageAwareString(text)], 'show': repr(text)}


UNITS += [
  unit(F, 'Strip', props=['C15'], deductive=False, params=['s'],
       native_env={'strip_spec': strip_spec, 'whole': whole},
       ensures=["str(result) == strip_spec(str(s))",
                # a fixed point: no outer blanks, no outer parentheses around a whole text
                "len(result) == 0 or not (result[0].isspace() or result[-1].isspace())",
                "not (len(result) >= 2 and result[0] == '(' and result[-1] == ')' and whole(str(result)[1:-1]))"],
       raises={'ParsingException': "False"}, native=gen_strip_parens),
  unit(F, 'SplitRaw', props=['C15'], deductive=False, params=['s', 'separator'],
       native_env={'split_spec': split_spec, 'bad': bad},
       ensures=["[str(p) for p in result] == split_spec(str(s), separator)",
                # the pieces and the separators make up the text again
                "separator.join(str(p) for p in result) == str(s)"],
       raises={'ParsingException': "bad(str(s))"}, native=gen_split),
  unit(F, 'Split', props=['C15'], deductive=False, params=['s', 'separator'],
       native_env={'split_spec': split_spec, 'strip_spec': strip_spec, 'bad': bad},
       ensures=["[str(p) for p in result] == [strip_spec(p) for p in split_spec(str(s), separator)]"],
       raises={'ParsingException': "bad(str(s))"}, native=gen_split),
]

# ---------------------------------------------------------------- C++ bridge: byte spans -> character spans
def gen_decode(tier, mod):
  texts = ['abc', 'aé', 'éa', 'T("é∞", y);', 'a😀b(c)', '∞', 'x == "é" ++ y, "z"', 'плюс(1)']
  for t in texts:
    b = t.encode('utf-8')
    bounds = [i for i in range(len(b) + 1) if i == len(b) or (b[i] & 0xC0) != 0x80]
    for i in bounds:
      for j in bounds:
        if i <= j:
          for legacy in (False, True):
            span = {'__hs': 0, 'start': i, 'stop': j} if legacy else ['__hs', 0, i, j]
            node = {'__string_table': [t], 'tree': {'expression_heritage': span, 'l': [{'full_text': span}]}}
            yield {'args': [node], 'env': {'t': t, 'want': b[i:j].decode('utf-8')},
                   'show': {'text': t, 'byte_span': [i, j], 'legacy_form': legacy}}


UNITS += [
  unit('parser_cpp/logica_parse_cpp.py', '_DecodePooledHeritageOutput', props=['C15'], deductive=False,
       params=['node'],
       # a byte span of the statement becomes the HeritageAwareString of exactly that text, whose
       # character span is literally that text in the statement
       native_env={'eh': lambda r: r['expression_heritage'], 'ft': lambda r: r['l'][0]['full_text']},
       ensures=["str(eh(result)) == want", "eh(result).heritage == t",
                "eh(result).heritage[eh(result).start:eh(result).stop] == want",
                "str(ft(result)) == want and ft(result).heritage[ft(result).start:ft(result).stop] == want"],
       native=gen_decode),
]


# ---------------------------------------------------------------------------------------------------------------
# The two simplest consumers of the scanner, verified modularly against an assumed contract of Traverse (the list of its
# yields: positions inside s, a status out of three): IsWhole looks at the last yield only; RemoveComments returns the
# characters at the yielded positions, in order, if every status is OK and raises ParsingException at the first that is
# not.  What the yields *are* (the mode automaton) stays the bounded contract of Traverse above.
YS = 'list[tuple[int,opt[str],str]]'
LAST = "ys(s)[len(ys(s)) - 1]"

UNITS += [
  unit(F, 'Traverse', name='Traverse!yields', external=True, pure=True, params=['s'], types={'s': 'str'}, fields={},
       returns=YS, requires=[],
       ensures=["all(0 <= result[k][0] and result[k][0] < len(s) for k in range(len(result)))",
                "all(result[k][2] == 'OK' or result[k][2] == 'Unmatched' or result[k][2] == 'EOL in string' "
                "for k in range(len(result)))"]),
  unit(F, 'IsWhole', name='IsWhole[modular]', props=['C15'], params=['s'], types={'s': 'str'}, fields={}, modifies=[],
       returns='bool', calls={'Traverse': 'Traverse!yields'}, spec_calls={'ys': 'Traverse!yields'},
       locals={'status': 'str', 'state': 'opt[str]'},
       ensures=["result == (len(ys(s)) == 0 or (LAST[2] == 'OK' and LAST[1] is not None and LAST[1] == ''))"
                .replace('LAST', LAST)],
       loops={0: {'inv': ["implies(_i0 == 0, status == 'OK' and state is not None and state == '')",
                          "implies(_i0 > 0, status == ys(s)[_i0 - 1][2] and state == ys(s)[_i0 - 1][1])"]}}),
  unit(F, 'RemoveComments', name='RemoveComments[modular]', props=['C15', 'C19'], params=['s'], types={'s': 'str'},
       fields={}, modifies=[], returns='str', calls={'Traverse': 'Traverse!yields'}, spec_calls={'ys': 'Traverse!yields'},
       locals={'chars': 'list[str]'}, exceptions=['ParsingException'],
       may_raise={'ParsingException': "any(ys(s)[k][2] != 'OK' for k in range(len(ys(s))))"},
       ensures=["all(ys(s)[k][2] == 'OK' for k in range(len(ys(s))))",
                "len(final_chars) == len(ys(s))",
                "all(final_chars[k] == s[ys(s)[k][0]] for k in range(len(ys(s))))",
                "result == ''.join(final_chars)"],
       loops={0: {'inv': ["len(chars) == _i0", "all(ys(s)[k][2] == 'OK' for k in range(_i0))",
                          "all(chars[k] == s[ys(s)[k][0]] for k in range(_i0))"]}}),
]
