"""Program transformations used by the relational bounded contracts (C07, C08): the transformed
program must satisfy the *same* spec comprehension as the original schema."""
import itertools
import random
import re


def statements(text):
  """Splits a catalogue program into its statements (top-level ';')."""
  out, cur, depth, q = [], '', 0, None
  for ch in text:
    cur += ch
    if q:
      if ch == q:
        q = None
      continue
    if ch in '"\'`':
      q = ch
    elif ch in '([{':
      depth += 1
    elif ch in ')]}':
      depth -= 1
    elif ch == ';' and depth == 0:
      out.append(cur.strip())
      cur = ''
  if cur.strip():
    out.append(cur.strip())
  return out


def split_top(s, sep):
  out, cur, depth, q = [], '', 0, None
  i = 0
  while i < len(s):
    ch = s[i]
    if q:
      cur += ch
      if ch == q:
        q = None
    elif ch in '"\'`':
      q = ch
      cur += ch
    elif ch in '([{':
      depth += 1
      cur += ch
    elif ch in ')]}':
      depth -= 1
      cur += ch
    elif depth == 0 and s.startswith(sep, i):
      out.append(cur)
      cur = ''
      i += len(sep)
      continue
    else:
      cur += ch
    i += 1
  out.append(cur)
  return out


def permute_statements(text, rnd, limit):
  sts = statements(text)
  head = [s for s in sts if s.startswith('@Engine')]
  rest = [s for s in sts if not s.startswith('@Engine')]
  perms = []
  if len(rest) <= 4:
    perms = [list(p) for p in itertools.permutations(rest)][1:]
  else:
    for _ in range(limit):
      p = rest[:]
      rnd.shuffle(p)
      perms.append(p)
    perms.append(list(reversed(rest)))
  rnd.shuffle(perms)
  for p in perms[:limit]:
    yield '\n'.join(head + p)


def permute_conjuncts(text, rnd, limit):
  """Permutes the top-level conjuncts (and top-level disjuncts) of rule bodies."""
  sts = statements(text)
  variants = []
  for k, st in enumerate(sts):
    if ':-' not in st:
      continue
    body_start = st.index(':-') + 2
    head, body = st[:body_start], st[body_start:].rstrip(';')
    for sep in (',', '|'):
      parts = split_top(body, sep)
      if len(parts) < 2:
        continue
      if sep == ',' and len(split_top(body, '|')) > 1:
        continue      # a | b, c  parses as a | (b, c): commas are not top-level conjuncts here
      for perm in itertools.permutations(parts):
        if list(perm) == parts:
          continue
        new = head + (' %s ' % sep).join(p.strip() for p in perm) + ';'
        variants.append('\n'.join(sts[:k] + [new] + sts[k + 1:]))
  rnd.shuffle(variants)
  return variants[:limit]


IDENT = re.compile(r'(?<![A-Za-z0-9_"@.])([a-z][a-z0-9_]*)(?![A-Za-z0-9_"(:{])')
KEYWORDS = {'in', 'is', 'null', 'if', 'then', 'else', 'distinct', 'combine', 'true', 'false', 'order_by', 'limit',
            'desc', 'asc', 'not', 'nil'}


def rename_variables(text, mapping):
  """Consistent renaming of variables (lower-case identifiers outside strings)."""
  out = []
  for piece in re.split(r'("[^"]*"|\'[^\']*\')', text):
    if piece.startswith('"') or piece.startswith("'"):
      out.append(piece)
      continue

    def sub(m):
      w = m.group(1)
      if w in KEYWORDS:
        return w
      return mapping.get(w, w)
    out.append(IDENT.sub(sub, piece))
  return ''.join(out)


def variable_names(text):
  names = []
  for piece in re.split(r'("[^"]*"|\'[^\']*\')', text):
    if piece.startswith('"') or piece.startswith("'"):
      continue
    for m in IDENT.finditer(piece):
      w = m.group(1)
      if w not in KEYWORDS and w not in names:
        names.append(w)
  return names


def renamings(text, rnd, limit):
  fields = set(re.findall(r'([a-z][a-z0-9_]*)\s*:(?!-)', text))
  vs = [v for v in variable_names(text) if v not in fields]   # `a:` is short for `a: a`
  if not vs:
    return
  pools = [
      # rotate the program's own names (collisions between scopes)
      dict(zip(vs, vs[1:] + vs[:1])),
      # names that look like generated ones / column names / table aliases
      dict(zip(vs, ['t', 'x1', 'extract', 'v_0', 'singleton', 's', 'unused', 'n0', 'k2', 'q', 'w', 'zz', 'aa', 'bb'])),
      dict(zip(vs, ['y' + v for v in vs])),
  ]
  for m in pools[:limit]:
    if len(set(m.values())) == len(m):
      yield rename_variables(text, m), m


def rename_predicates(text, spec, mapping):
  def sub(m):
    return mapping.get(m.group(1), m.group(1))
  out = []
  for piece in re.split(r'("[^"]*"|\'[^\']*\')', text):
    if piece.startswith('"') or piece.startswith("'"):
      out.append(piece)
    else:
      out.append(re.sub(r'(?<![A-Za-z0-9_@])([A-Z][A-Za-z0-9_]*)(?![A-Za-z0-9_{])', sub, piece))
  return ''.join(out), {mapping.get(k, k): v for k, v in spec.items()}


def defined_predicates(text):
  ps = []
  for st in statements(text):
    m = re.match(r'\s*([A-Z][A-Za-z0-9_]*)\s*\(', st)
    if m and m.group(1) not in ps:
      ps.append(m.group(1))
  return ps


def used_in_bodies(text, p):
  n = 0
  for st in statements(text):
    if ':-' in st:
      body = st[st.index(':-'):]
      n += len(re.findall(r'(?<![A-Za-z0-9_])%s\s*\(' % re.escape(p), body))
  return n


# ---------------------------------------------------------------------------------------------------
# Meaning-preserving rewrites (relational contract "same spec comprehension"), used by C01 / C02 / C11.

def _rules(text):
  """(index, head, body) of the statements that are rules with a body (annotations and functor
  applications are left alone)."""
  sts = statements(text)
  out = []
  for k, st in enumerate(sts):
    if st.startswith('@') or ':=' in st or ':-' not in st:
      continue
    i = st.index(':-')
    out.append((k, st[:i + 2], st[i + 2:].rstrip(';')))
  return sts, out


def layer_tables(text, tables):
  """Every extensional table is read through one more (injectible) predicate: T_lyr(a..) :- T(a..)."""
  sts = statements(text)
  if not tables:
    return None
  new = []
  for st in sts:
    for t in tables:
      st = re.sub(r'(?<![A-Za-z0-9_"])%s\(' % re.escape(t), t + '_lyr(', st)
    new.append(st)
  if new == sts:
    return None
  for t, n in sorted(tables.items()):
    args = ', '.join('a%d' % i for i in range(n))
    new.append('%s_lyr(%s) :- %s(%s);' % (t, args, t, args))
  return '\n'.join(new)


def const_via_function(text):
  """Integer literals of rule bodies become calls of constant functions Kc<k>() = k."""
  sts, rules = _rules(text)
  used = set()
  changed = False
  for k, head, body in rules:
    def sub(m):
      # not inside a string literal
      if body.count('"', 0, m.start()) % 2 == 1:
        return m.group(0)
      used.add(m.group(0))
      return 'Kc%s()' % m.group(0)
    # (a digit that is the aggregation operator `1` -- `v 1= (...)`, `1{...}`, `combine 1= ...` -- is not a literal)
    nb = re.sub(r'(?<![\w."\'\[@-])\d+(?![\w."\'\]])(?!\s*(?:=(?!=)|\{))', sub, body)
    if nb != body:
      changed = True
      sts[k] = head + nb + ';'
  if not changed:
    return None
  return '\n'.join(sts + ['Kc%s() = %s;' % (c, c) for c in sorted(used)])


def paren_group(text):
  """The first two top-level conjuncts of every rule body (without a top-level disjunction) in parentheses."""
  sts, rules = _rules(text)
  changed = False
  for k, head, body in rules:
    parts = split_top(body, ',')
    if len(parts) < 2 or len(split_top(body, '|')) > 1:
      continue
    sts[k] = head + ' (' + parts[0].strip() + ', ' + parts[1].strip() + ')' + ''.join(',' + p for p in parts[2:]) + ';'
    changed = True
  return '\n'.join(sts) if changed else None


def double_negation_guard(text, tables):
  """After a positive literal T(args) of an extensional table the conjunct ~(~T(args)) is true: appending it
  changes nothing."""
  sts, rules = _rules(text)
  changed = False
  for k, head, body in rules:
    if len(split_top(body, '|')) > 1:
      continue
    for p in split_top(body, ','):
      m = re.match(r'^\s*([A-Z][A-Za-z0-9_]*)\(([a-z0-9_, ]*)\)\s*$', p)
      if m and m.group(1) in tables:
        sts[k] = head + body + ', ~(~' + p.strip() + ');'
        changed = True
        break
  return '\n'.join(sts) if changed else None


def rewrites(text, tables):
  out = []
  for name, t in (('layer-tables', layer_tables(text, tables)), ('const-via-function', const_via_function(text)),
                  ('paren-group', paren_group(text)), ('double-negation-guard', double_negation_guard(text, tables))):
    if t is not None:
      out.append((name, t))
  return out
