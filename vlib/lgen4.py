"""Schemas added in round 4 of the seeded changes (see DESIGN.md 9.8).  Same format as lgen.py."""
import json
from .lgen import S, J, iterate

_ld = json.loads


def _minnone(vs):
  return min(vs) if vs else None


def _reach_steps(db, n):
  """n simultaneous applications of the Reach / Via rules from empty relations."""
  reach, via = set(), set()
  for _ in range(n):
    reach, via = ({x for (x,) in db['Z']} | {y for (x, y) in db['E'] if x in reach} |
                  {y for (x, y) in db['T'] if x in via},
                  {x for x in reach if (x,) in db['G']})
  return sorted((x,) for x in reach)


_CHAIN = {'Z': [(0,)], 'E': [(i, i + 1) for i in range(12)] + [(50, 51)], 'T': [(3, 50)], 'G': [(3,)]}
_CHAIN2 = {'Z': [(0,)], 'E': [(i, i + 1) for i in range(8)], 'T': [(1, 20), (20, 0)], 'G': [(1,), (20,)]}

_CONSTS = [('"plain"', 'plain'), ('10', 10), ('0', 0), ('-5', -5), ('""', ''), ('"caf\u00e9"', 'caf\u00e9'),
           ('"\u043c\u0438\u0440"', '\u043c\u0438\u0440'), ('"C:\\temp"', 'C:\\temp'), ('"100% sure"', '100% sure')]

def _cyc3(db, n, bound):
  a, b, c = set(), set(), set()
  for _ in range(n):
    a, b, c = ({x for (x,) in db['Z']} | {x + 1 for x in c if x < bound}, {x + 1 for x in a if x < bound},
               {x + 1 for x in b if x < bound})
  return {'A': sorted((x,) for x in a), 'B': sorted((x,) for x in b), 'C': sorted((x,) for x in c)}


def _cyc3_schema(name, depth, bound):
  return S(name, '@Recursive(A, %d, iterative: true);\nA(x) distinct :- Z(x);\nA(x + 1) distinct :- C(x), x < %d;\n'
           'B(x + 1) distinct :- A(x), x < %d;\nC(x + 1) distinct :- B(x), x < %d;' % (depth, bound, bound, bound), {'Z': 1},
           {p: (lambda p: lambda db: (_cyc3(db, depth + 1, bound)[p], _cyc3(db, 60, bound)[p]))(p) for p in 'ABC'},
           tags=('C14', 'C03'), workflow=True, between=True, together=True, max_rows={'quick': 1, 'thorough': 1}, domain=[0])


ROUND4 = [
  # iterative unfolding requested for small depths: a cycle of three predicates (the generated @Iteration has a
  # non-positive repetition count for the smallest depths); the run terminates, the result lies between depth+1
  # applications and the least fixpoint
  _cyc3_schema('rec_iter_cycle3_depth1', 1, 2), _cyc3_schema('rec_iter_cycle3_depth2', 2, 2),
  _cyc3_schema('rec_iter_cycle3_depth3', 3, 3), _cyc3_schema('rec_iter_cycle3_depth6', 6, 4),
  # string constants spelled like a column / table of the same SELECT
  S('string_const_column_name', 'Col(x) :- N(x), x == "col0";\nNe(x) :- N(x), x != "col0";\n'
    'P(x, tag: x ++ "!") :- N(x);\nTag(x, mark: "tag") :- P(x, tag: t);\nLit("col0", "N", x) :- N(x);', {'N': 1},
    {'Col': lambda db: [(x,) for (x,) in db['N'] if x == 'col0'],
     'Ne': lambda db: [(x,) for (x,) in db['N'] if x != 'col0'],
     'Tag': lambda db: [(x, 'tag') for (x,) in db['N']],
     'Lit': lambda db: [('col0', 'N', x) for (x,) in db['N']]}, tags=('C01', 'C10'), domain=['col0', 'a', 'N']),
  # a functor applied to a deeply (iteratively) recursive predicate: the copy is the same recursion
  S('rec_functor_over_deep', '@Recursive(N, 30);\nN(x) distinct :- St(x);\nN(x + 1) distinct :- N(x);\nM := N(St: Sm);',
    {'St': 1, 'Sm': 1},
    {'N': lambda db: sorted({(x + k,) for (x,) in db['St'] for k in range(31)}),
     'M': lambda db: sorted({(x + k,) for (x,) in db['Sm'] for k in range(31)})},
    tags=('C03', 'C04', 'C14'), workflow=True, max_rows={'quick': 1, 'thorough': 1}, domain=[0, 100]),
  # a component cut at one predicate whose cycles have different lengths (self loop and a loop through Via):
  # everything derivable by depth+1 simultaneous applications, nothing outside the least fixpoint
  S('rec_self_and_via', 'Reach(x) distinct :- Z(x);\nReach(y) distinct :- Reach(x), E(x, y);\n'
    'Reach(y) distinct :- Via(x), T(x, y);\nVia(x) distinct :- Reach(x), G(x);', {'Z': 1, 'E': 2, 'T': 2, 'G': 1},
    {'Reach': lambda db: (_reach_steps(db, 9), _reach_steps(db, 200))},
    tags=('C03',), between=True, dbs=[_CHAIN, _CHAIN2]),
  S('rec_self_and_via_depth5', '@Recursive(Reach, 5);\nReach(x) distinct :- Z(x);\nReach(y) distinct :- Reach(x), E(x, y);\n'
    'Reach(y) distinct :- Via(x), T(x, y);\nVia(x) distinct :- Reach(x), G(x);', {'Z': 1, 'E': 2, 'T': 2, 'G': 1},
    {'Reach': lambda db: (_reach_steps(db, 6), _reach_steps(db, 200))},
    tags=('C03',), between=True, dbs=[_CHAIN, _CHAIN2]),
  # the argument of a functor reached through an intermediate predicate that has several rules
  S('functor_multi_rule_intermediate', 'M(x) :- A(x);\nM(x) :- C(x);\nF(x) :- M(x);\nN := F(A: B);\n'
    'K(x) :- A(x) | C(x), x > 1;\nM2(x + 100) :- K(x);\nF2(x) :- M2(x);\nN2 := F2(A: B);\nN3 := F2(A: B);\n'
    'Total() += x :- A(x);\nTotal() += x :- C(x);\nReport(t) :- t == Total();\nR := Report(A: B);',
    {'A': 1, 'B': 1, 'C': 1},
    {'N': lambda db: list(db['B']) + list(db['C']), 'F': lambda db: list(db['A']) + list(db['C']),
     'M': lambda db: list(db['A']) + list(db['C']),
     'N2': lambda db: [(x + 100,) for (x,) in db['B']] + [(x + 100,) for (x,) in db['C'] if x > 1],
     'N3': lambda db: [(x + 100,) for (x,) in db['B']] + [(x + 100,) for (x,) in db['C'] if x > 1],
     'F2': lambda db: [(x + 100,) for (x,) in db['A']] + [(x + 100,) for (x,) in db['C'] if x > 1],
     # an aggregate without keys over no rows is one row holding null (SQL semantics, as in schema agg_count)
     'R': lambda db: [(sum(x for (x,) in db['B'] + db['C']) if db['B'] + db['C'] else None,)],
     'Report': lambda db: [(sum(x for (x,) in db['A'] + db['C']) if db['A'] + db['C'] else None,)]},
    tags=('C04',), max_rows={'quick': 2, 'thorough': 2}, cap={'quick': 100, 'thorough': 1500}),
  # constants as functor arguments: integers, the empty string, non-ASCII text, a backslash, a percent sign
  S('functor_string_constants', 'A() = "a";\nLabel(x) = ToString(x) ++ ":" ++ ToString(A()) :- Item(x);\n'
    'F(x, a: A(), label: Label(x)) :- Item(x);\n' +
    ''.join('N%d := F(A: %s);\n' % (i, c) for i, (c, _) in enumerate(_CONSTS)), {'Item': 1},
    # Label(x) is itself defined over Item: a duplicated item joins with each of its copies
    dict([('F', lambda db: [(x, 'a', '%d:a' % x) for (x,) in db['Item'] for (y,) in db['Item'] if y == x])] +
         [('N%d' % i, (lambda v: lambda db: [(x, v, '%d:%s' % (x, v)) for (x,) in db['Item'] for (y,) in db['Item'] if y == x])(v))
          for i, (_, v) in enumerate(_CONSTS)]),
    tags=('C04', 'C10'), max_rows={'quick': 1, 'thorough': 2}, domain=[1, 2]),
  # a concrete predicate with a filter, called inside a negation and inside an aggregating expression
  S('negated_call_filtered_rule', 'P(x, y) :- T(x, y), x > 1;\nQ(a) :- Sx(a), ~P(a, b);\n'
    'R(a, n) :- Sx(a), n == Sum{y :- P(x, y), x >= a};', {'T': 2, 'Sx': 1},
    {'Q': lambda db: [(a,) for (a,) in db['Sx'] if not [1 for (x, y) in db['T'] if x > 1 and x == a]],
     'R': lambda db: [(a, (lambda l: sum(l) if l else None)([y for (x, y) in db['T'] if x > 1 and x >= a]))
                      for (a,) in db['Sx']]},
    tags=('C02', 'C08'), domain=[1, 2, 3]),
  # the "any value" operator 1 in the three syntaxes of an aggregating expression
  S('sugar_any_value', 'Sh(x, v) :- A(x), v 1= (x + 10 :- Q(x, y));\nMd(x, v) :- A(x), v == 1{x + 10 :- Q(x, y)};\n'
    'Lg(x, v) :- A(x), v == (combine 1= x + 10 :- Q(x, y));\nSm(x, v) :- A(x), v Sum= (y :- Q(x, y));\n'
    'Sl(x, v) :- A(x), v == (combine Sum= y :- Q(x, y));', {'A': 1, 'Q': 2},
    {'Sh': lambda db: [(x, x + 10 if [1 for (a, b) in db['Q'] if a == x] else None) for (x,) in db['A']],
     'Md': lambda db: [(x, x + 10 if [1 for (a, b) in db['Q'] if a == x] else None) for (x,) in db['A']],
     'Lg': lambda db: [(x, x + 10 if [1 for (a, b) in db['Q'] if a == x] else None) for (x,) in db['A']],
     'Sm': lambda db: [(x, (lambda l: sum(l) if l else None)([b for (a, b) in db['Q'] if a == x])) for (x,) in db['A']],
     'Sl': lambda db: [(x, (lambda l: sum(l) if l else None)([b for (a, b) in db['Q'] if a == x])) for (x,) in db['A']]},
    tags=('C11', 'C02')),
  # short and long form of a functional call inside a negation, in a predicate that is injected into a caller
  # using the same variable name
  S('sugar_value_in_negation_injected', 'F(x) = y :- Q(x, y);\nPs(x) :- A(x), ~(F(x) == 1);\n'
    'Pl(x) :- A(x), ~(F(x, logica_value: v), v == 1);\nCs(x, v) :- Ps(x), B(v);\nCl(x, v) :- Pl(x), B(v);\n'
    'Ss(x) :- A(x), Sum{F(x) :- x > 0} > 1;\nTl(x, v) :- Ss(x), B(v);', {'Q': 2, 'A': 1, 'B': 1},
    {'Ps': lambda db: [(x,) for (x,) in db['A'] if not [1 for (a, b) in db['Q'] if a == x and b == 1]],
     'Pl': lambda db: [(x,) for (x,) in db['A'] if not [1 for (a, b) in db['Q'] if a == x and b == 1]],
     'Cs': lambda db: [(x, v) for (x,) in db['A'] if not [1 for (a, b) in db['Q'] if a == x and b == 1] for (v,) in db['B']],
     'Cl': lambda db: [(x, v) for (x,) in db['A'] if not [1 for (a, b) in db['Q'] if a == x and b == 1] for (v,) in db['B']],
     'Tl': lambda db: [(x, v) for (x,) in db['A'] if x > 0 and sum(b for (a, b) in db['Q'] if a == x) > 1
                       for (v,) in db['B']]},
    tags=('C11', 'C08', 'C01')),
  # denotations of one predicate spread over its rules
  S('denotations_split_rules', 'P(x, y) order_by("col0", "col1") :- Q(x, y), x > 0;\n'
    'P(x, y) limit(2) :- Q(x, y), x <= 0;\nR(x, y) :- P(x, y);', {'Q': 2},
    {'P': lambda db: sorted(db['Q'])[:2], 'R': lambda db: sorted(db['Q'])[:2]}, tags=('C18',), ordered=('P',),
    max_rows={'quick': 3, 'thorough': 4}, domain=[0, 1]),
  # an ordered and limited predicate read through an inlined sub-select (@NoWith)
  S('order_limit_nowith_consumer', '@OrderBy(P, "col0 desc", "col1");\n@Limit(P, 2);\n@NoWith(P);\n'
    'P(x, y) :- Q(x, y);\nR(x, y) :- P(x, y);\nC() += 1 :- P(x, y);', {'Q': 2},
    {'R': lambda db: sorted(db['Q'], key=lambda r: (-r[0], r[1]))[:2],
     'C': lambda db: [(min(2, len(db['Q'])) or None,)]}, tags=('C18', 'C08'), max_rows={'quick': 3, 'thorough': 4}),
  # arithmetic directly under a unary minus / as a computed list index
  S('bi_computed_index', 'El(l, i, Element(l, i + 1 - 1), l[i + 0], Element(l, Size(l) - 1)) :- L(l), N(i), i < Size(l);\n'
    'Ng(x, y, -(x + y), -(x - y), 0 - (x + y) * 2, -(x * y) - 1) :- N(x), N(y);', {'L': 1, 'N': 1},
    {'El': lambda db: [(l, i, _ld(l)[i], _ld(l)[i], _ld(l)[-1]) for (l,) in db['L'] for (i,) in db['N'] if i < len(_ld(l))],
     'Ng': lambda db: [(x, y, -(x + y), -(x - y), 0 - (x + y) * 2, -(x * y) - 1) for (x,) in db['N'] for (y,) in db['N']]},
    tags=('C20', 'C01'), domains={'L': [('[1]',), ('[2,1]',), ('[3,1,2]',)], 'N': [(0,), (1,), (2,)]},
    row_norm='json_compact'),
  # `in` evaluated as an expression over strings that look like JSON scalars
  S('bi_in_expression_strings', 'I(x, l, x in l) :- W(x), Ls(l);\nNi(x, l) :- W(x), Ls(l), !(x in l);\n'
    'Ci(x, l) :- W(x), Ls(l), Constraint(x in l);\nSp(x) :- W(x), x in Split("1,2,a,true", ",");', {'W': 1, 'Ls': 1},
    {'I': lambda db: [(x, l, int(x in _ld(l))) for (x,) in db['W'] for (l,) in db['Ls']],
     'Ni': lambda db: [(x, l) for (x,) in db['W'] for (l,) in db['Ls'] if x not in _ld(l)],
     'Ci': lambda db: [(x, l) for (x,) in db['W'] for (l,) in db['Ls'] if x in _ld(l)],
     'Sp': lambda db: [(x,) for (x,) in db['W'] if x in ('1', '2', 'a', 'true')]},
    tags=('C20',), domains={'W': [('1',), ('a',), ('true',), ('',), ('2.5',), ('null',)],
                            'Ls': [('["1","a"]',), ('["true","null",""]',), ('["b","2.5"]',), ('[]',)]},
    row_norm='json_compact'),
]
