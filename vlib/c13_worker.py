"""Compiles a fixed list of programs and prints a JSON map name -> sha256 of everything emitted.
Run in fresh subprocesses with different PYTHONHASHSEED, and in-process in different orders."""
import hashlib
import json
import os
import re
import sys

HERE = os.path.dirname(os.path.dirname(os.path.abspath(__file__)))
sys.path.insert(0, HERE)
REPO = os.environ.get('VERIF_REPO', '/repo')
sys.path.insert(0, REPO)

EXTRA = [
  ('diamond3', '@Engine("sqlite");\n@Recursive(A, 5, mode: "diamond");\nA(x) distinct :- Z(x);\nA(x + 1) distinct :- B(x), C(x), x < 9;\n'
   'B(x) distinct :- A(x);\nB(x) distinct :- C(x);\nC(x) distinct :- A(x);\nC(x) distinct :- B(x);\nQ(x) :- B(x), C(x);', ['Q', 'A']),
  ('bq_greatest', '@Engine("bigquery");\nQ(Greatest(x, 1), Least(x, 2)) :- T(x);', ['Q']),
  ('psql_typed', '@Engine("psql");\nT(1, "a");\nQ(x, {a: y, b: [x]}) :- T(x, y);', ['Q']),
  ('duckdb_typed', '@Engine("duckdb");\nT(1, "a");\nQ(x, {a: y, b: [x]}) :- T(x, y);\nR(s) List= x :- Q(x, s);', ['Q']),
  ('incantation', '# Signa inter verba conjugo, symbolum infixus evoco!\n@Engine("sqlite");\nT(1);\nQ(x) :- T(x);', ['Q']),
  ('infix_like', '@Engine("sqlite");\nQ(y) :- y == 2*(3);', ['Q']),
  ('functor_many', '@Engine("sqlite");\nK(x) :- A(x);\nM(x) :- K(x), B(x);\nF(x) :- M(x);\nN1 := F(A: C);\nN2 := F(B: C);\n'
   'N3 := F(A: B, B: A);\nQ(x) :- N1(x) | N2(x) | N3(x);', ['Q']),
]


def programs():
  from vlib import lgen
  ps = [(s['name'], s['text'], list(s['spec']), s.get('flags')) for s in lgen.ALL]
  ps += [(n, t, p, None) for (n, t, p) in EXTRA]
  return ps


def digest(text, preds, flags):
  from parser_py import parse
  from compiler import universe
  h = hashlib.sha256()
  try:
    rules = parse.ParseFile(text)['rule']
    prog = universe.LogicaProgram(rules, user_flags=flags or {})
    for p in preds:
      sql = prog.FormattedPredicateSql(p)
      ex = prog.execution
      blob = json.dumps([sql, ex.preamble, ex.defines_and_exports, sorted(ex.table_to_export_map.items()),
                         ex.main_predicate_sql], sort_keys=True)
      blob = re.sub(r'/tmp/logical_stop_\d+_', '/tmp/logical_stop_T_', blob)
      h.update(blob.encode())
  except Exception as e:
    h.update(('%s: %s' % (type(e).__name__, re.sub(r'\x1b\[[0-9;]*m', '', str(e))[:200])).encode())
  return h.hexdigest()[:16]


def main():
  order = sys.argv[1] if len(sys.argv) > 1 else 'forward'
  ps = programs()
  if order == 'reverse':
    ps = list(reversed(ps))
  out = {}
  for name, text, preds, flags in ps:
    out[name] = digest(text, preds, flags)
  if order == 'twice':
    for name, text, preds, flags in reversed(ps):
      out[name + '#again'] = digest(text, preds, flags)
  print(json.dumps(out))


if __name__ == '__main__':
  main()
