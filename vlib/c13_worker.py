"""Compiles a fixed list of programs and prints a JSON map name -> sha256 of everything emitted.
Run in fresh subprocesses with different PYTHONHASHSEED, and in-process in different orders."""
import hashlib
import json
import os
import re
import sys

HERE = os.path.dirname(os.path.dirname(os.path.abspath(__file__)))
sys.path.insert(0, HERE)
REPO = os.environ.get('VERIF_REPO', '/repo')
sys.path.insert(0, REPO)

EXTRA = [
  ('diamond3', '@Engine("sqlite");\n@Recursive(A, 5, mode: "diamond");\nA(x) distinct :- Z(x);\nA(x + 1) distinct :- B(x), C(x), x < 9;\n'
   'B(x) distinct :- A(x);\nB(x) distinct :- C(x);\nC(x) distinct :- A(x);\nC(x) distinct :- B(x);\nQ(x) :- B(x), C(x);', ['Q', 'A']),
  ('bq_greatest', '@Engine("bigquery");\nQ(Greatest(x, 1), Least(x, 2)) :- T(x);', ['Q']),
  ('psql_typed', '@Engine("psql");\nT(1, "a");\nQ(x, {a: y, b: [x]}) :- T(x, y);', ['Q']),
  ('duckdb_typed', '@Engine("duckdb");\nT(1, "a");\nQ(x, {a: y, b: [x]}) :- T(x, y);\nR(s) List= x :- Q(x, s);', ['Q']),
  ('incantation', '# Signa inter verba conjugo, symbolum infixus evoco!\n@Engine("sqlite");\nT(1);\nQ(x) :- T(x);', ['Q']),
  ('infix_like', '@Engine("sqlite");\nQ(y) :- y == 2*(3);', ['Q']),
  # type-checked compilations that narrow or redefine built-ins (histories for the type inference tables)
  ('sqlite_typed_argmin', '@Engine("sqlite", type_checking: true);\nT(1, 2);\nQ(ArgMin{x -> y :- T(x, y)}, ArgMax{x -> y :- T(x, y)});', ['Q']),
  ('psql_argmax_list', '@Engine("psql");\nT(1);\nQ(ArgMax{[x, x] -> x :- T(x)}, ArgMin{[x] -> x :- T(x)});', ['Q']),
  ('psql_greatest_str', '@Engine("psql");\nQ(Greatest("a", "b"), Least("c", "d"));', ['Q']),
  ('duckdb_own_greatest', '@Engine("duckdb");\nGreatest(x, y) = x + y;\nLeast(x, y) = x * y;\nQ(Greatest(1, 2), Least(2, 3));', ['Q']),
  ('duckdb_greatest_num', '@Engine("duckdb");\nT(1);\nQ(Greatest(x, 2), Size([x])) :- T(x);', ['Q']),
  ('psql_size_str_list', '@Engine("psql");\nQ(Size(["a"]), Size([1]), ["a"] ++ ["b"], "a" ++ "b");', ['Q']),
  ('recursive_depth3', '@Engine("sqlite");\n@Recursive(N, 3);\nN(0);\nN(x + 1) :- N(x);\nQ(x) :- N(x);', ['Q', 'N']),
  ('recursive_depth30_stop', '@Engine("sqlite");\n@Recursive(N, 30, stop: Done);\nN(0) distinct;\nN(x + 1) distinct :- N(x), x < 5;\n'
   'Done() :- N(5);\nQ(x) :- N(x);', ['Q']),
  ('duckdb_typed_mutual', '@Engine("duckdb");\nEv(0);\nOd(x + 1) :- Ev(x), x < 5;\nEv(x + 1) :- Od(x), x < 5;\n'
   'Th(x) :- Ev(x), Od(x + 1);\nQ(x, {p: x}) :- Ev(x) | Od(x) | Th(x);', ['Q']),
  ('psql_typed_mutual', '@Engine("psql");\nA(0, "z");\nB(x + 1, s) :- A(x, s), x < 3;\nC(x, s ++ "c") :- B(x, s);\n'
   'A(x + 1, s) :- C(x, s), B(x, s);\nQ(x, [s]) :- A(x, s) | B(x, s) | C(x, s);', ['Q']),
  # a whole-row variable of a type-checked SQLite program whose row type went through record unification
  ('sqlite_row_record', '@Engine("sqlite", type_checking: true);\nT(alpha: 1, beta: "x", gamma: 3, delta: 4, epsilon: 5);\n'
   'T(alpha: 2, beta: "y", gamma: 7, delta: 8, epsilon: 9);\nQ(r) :- T(..r), r.gamma > 1;\n'
   'Q2(r, s) :- T(..r), T(..s), r.alpha < s.alpha, s.epsilon > r.delta;', ['Q', 'Q2']),
  # three custom aggregations over three semigroup UDFs (PostgreSQL): the definitions are emitted in one fixed order
  ('psql_three_semigroups', '@Engine("psql");\nT(1, 2); T(3, 4);\n@CompileAsUdf(S1);\nS1(a, b) = a + b;\n'
   '@BareAggregation(AggA, semigroup: S1);\n@CompileAsUdf(S2);\nS2(a, b) = a * b;\n@BareAggregation(AggB, semigroup: S2);\n'
   '@CompileAsUdf(S3);\nS3(a, b) = a - b;\n@BareAggregation(AggC, semigroup: S3);\n'
   'Q(x? AggA= a, y? AggB= b, z? AggC= a) distinct :- T(a, b);', ['Q']),
  # one name that is a plain function in one program and an SQL UDF in another (histories)
  ('half_as_function', '@Engine("bigquery");\nHalf(x) = x / 2;\nShift(x) = Half(x) + 1;\nQ(Shift(4), Half(2));', ['Q']),
  ('half_as_udf', '@Engine("bigquery");\nHalf(x) --> x / 2;\nShift(x) --> Half(x) + 1;\nQ(Shift(4), Half(2));', ['Q']),
  ('functor_many', '@Engine("sqlite");\nK(x) :- A(x);\nM(x) :- K(x), B(x);\nF(x) :- M(x);\nN1 := F(A: C);\nN2 := F(B: C);\n'
   'N3 := F(A: B, B: A);\nQ(x) :- N1(x) | N2(x) | N3(x);', ['Q']),
]


# programs with imports: library files written to a scratch directory of this process; two libraries share a
# base name, one program imports one of them alone, another imports both (prefixes depend on the importing program)
LIB_FILES = {'north/util.l': 'Items(x) :- x in [1, 2];\nHelper(x) :- Items(x), x > 1;\n',
             'south/util.l': 'Things(x) :- x in [10];\nHelper(x) :- Things(x);\n',
             'deep/chain.l': 'import north.util.Helper;\nChain(x + 1) :- Helper(x);\n',
             'twin/util.l': 'Item(1);\nUtil_Item(2);\nBoth(x) :- Item(x) | Util_Item(x);\n'}
IMPORTING = [
  ('imp_north_only', '@Engine("sqlite");\nimport north.util.Items;\nQ(x) :- Items(x);', ['Q']),
  ('imp_south_then_north', '@Engine("sqlite");\nimport south.util.Things;\nimport north.util.Items;\nQ(x) :- Things(x) | Items(x);', ['Q']),
  ('imp_north_then_south', '@Engine("sqlite");\nimport north.util.Helper;\nimport south.util.Helper as H2;\nQ(x) :- Helper(x) | H2(x);', ['Q']),
  ('imp_prefixed_twin', '@Engine("sqlite");\nimport twin.util.Both;\nQ(x) :- Both(x);', ['Q']),
  ('imp_chain', '@Engine("sqlite");\nimport deep.chain.Chain;\nimport south.util.Helper;\nQ(x) :- Chain(x) | Helper(x);', ['Q']),
]
_LIB_ROOT = []


def lib_root():
  if not _LIB_ROOT:
    import atexit, shutil, tempfile
    d = tempfile.mkdtemp(prefix='verif_c13_')
    atexit.register(shutil.rmtree, d, True)
    for rel, text in LIB_FILES.items():
      os.makedirs(os.path.dirname(os.path.join(d, rel)), exist_ok=True)
      open(os.path.join(d, rel), 'w').write(text)
    _LIB_ROOT.append(d)
  return _LIB_ROOT[0]


def programs():
  from vlib import lgen
  ps = [(s['name'], s['text'], list(s['spec']), s.get('flags')) for s in lgen.ALL]
  ps += [(n, t, p, None) for (n, t, p) in EXTRA]
  ps += [(n, t, p, None) for (n, t, p) in IMPORTING]
  return ps


def digest(text, preds, flags, rules=None):
  from parser_py import parse
  from compiler import universe
  h = hashlib.sha256()
  try:
    if rules is None:
      rules = parse.ParseFile(text, import_root=lib_root())['rule'] if '\nimport ' in text else parse.ParseFile(text)['rule']
    prog = universe.LogicaProgram(rules, user_flags=flags or {})
    for p in preds:
      sql = prog.FormattedPredicateSql(p)
      ex = prog.execution
      blob = json.dumps([sql, ex.preamble, ex.defines_and_exports, sorted(ex.table_to_export_map.items()),
                         ex.main_predicate_sql], sort_keys=True)
      blob = re.sub(r'/tmp/logical_stop_\d+_', '/tmp/logical_stop_T_', blob)
      h.update(blob.encode())
  except Exception as e:
    h.update(('%s: %s' % (type(e).__name__, re.sub(r'\x1b\[[0-9;]*m', '', str(e))[:200])).encode())
  return h.hexdigest()[:16]


def main():
  order = sys.argv[1] if len(sys.argv) > 1 else 'forward'
  ps = programs()
  if ':' in order:             # 'reuse:1/4' = the programs with index % 4 == 1
    order, sl = order.split(':')
    k, n = map(int, sl.split('/'))
    ps = [p for i, p in enumerate(ps) if i % n == k]
  if order == 'reverse':
    ps = list(reversed(ps))
  out = {}
  for name, text, preds, flags in ps:
    out[name] = digest(text, preds, flags)
  if order == 'twice':
    for name, text, preds, flags in reversed(ps):
      out[name + '#again'] = digest(text, preds, flags)
  if order == 'reuse':
    # the same parsed rules object compiled twice; compilation must also leave the object as it was
    import copy
    from parser_py import parse
    out = {}
    for name, text, preds, flags in ps:
      try:
        rules = parse.ParseFile(text, import_root=lib_root())['rule'] if '\nimport ' in text else parse.ParseFile(text)['rule']
      except Exception:
        continue
      snapshot = copy.deepcopy(rules)
      out[name] = digest(text, preds, flags, rules=rules)
      if rules != snapshot:
        out[name + '#frame'] = 'rules object modified by compilation'
      out[name + '#reused'] = digest(text, preds, flags, rules=rules)
      out[name + '#reused-reversed-predicates'] = digest(text, list(reversed(preds)), flags, rules=rules) \
          if len(preds) == 1 else out[name + '#reused']
  if order.startswith('shuffle'):
    import random
    rnd = random.Random(int(order[7:] or 1))
    ps2 = list(ps)
    rnd.shuffle(ps2)
    out = {}
    for name, text, preds, flags in ps2:
      out[name] = digest(text, preds, flags)
  print(json.dumps(out))


if __name__ == '__main__':
  main()
