"""evidence/<id>.json writer.  Every number is measured on this run."""
import json
import os

HERE = os.path.dirname(os.path.dirname(os.path.abspath(__file__)))
SCHEMA = '/root/.vp/EVIDENCE.schema.json'

GENERIC_ASSUMPTIONS = [
    'VC generator (vlib/symex.py, this repository) is trusted: Python int is mathematical, str is a '
    'sequence of code points, list/dict/set have value semantics (no aliasing inside a unit)',
    'z3 5.1 / cvc5 1.0.3 are trusted as decision procedures',
    'Python built-ins used by the units have their documented behaviour (str.join, str.replace, '
    '%/format with %s %d {}, sorted, heapq, json.dumps, copy.deepcopy)',
]


def build(prop, tier, seed, pmod, ded, nat, extra, reg, n_obl, n_dis, vc_time, backends, samples,
          undecided, n_viol, wall, ext, mine, known_hits):
  meta = dict(getattr(pmod, 'META', {}) if pmod else {})
  # the level is the one claimed in MANIFEST.json (single source of truth)
  try:
    man = json.load(open(os.path.join(HERE, 'MANIFEST.json')))
    for c in man['checks']:
      if c['property_id'] == prop:
        meta['level'] = c['level_claimed']['category']
        meta.setdefault('explanation', c['level_claimed']['text'])
        meta.setdefault('assumptions', [c['level_note']])
  except (OSError, KeyError, ValueError):
    pass
  level = meta.get('level', 'other')
  nat_evals = sum(n['evaluations'] for n in nat.values())
  nat_samples = []
  for n in nat.values():
    for s in n.get('samples', [])[:1]:
      nat_samples.append({'unit': n['unit'], 'bounded_case': s})
  extra_evals = sum(e.get('evaluations', 0) for e in extra)
  extra_nontrivial = sum(e.get('distinct_nontrivial', 0) for e in extra)
  units = []
  for r in ded:
    u = reg[r['name']]
    units.append({
        'unit': r['name'], 'file': r['file'], 'status': r['status'],
        'lines': (r.get('info') or {}).get('lines'), 'sha256': (r.get('info') or {}).get('sha256'),
        'obligations': len(r['obligations']),
        'discharged': sum(1 for o in r['obligations'] if o['result'] == 'proved'),
        'vc_instances': sum(o['instances'] for o in r['obligations']),
        'solver_s': round(sum(o['time'] for o in r['obligations']), 3),
        'dropped_by_extraction': r.get('dropped', []) + ['docstring', 'comments', 'type annotations'],
        'assumed_builtins': r.get('assumed', []),
        'bounded_back_end_evaluations': nat.get(r['name'], {}).get('evaluations', 0),
        'not_generated': r.get('error') if r['status'] != 'ok' else None,
    })
  ded_names = {r['name'] for r in ded}
  for m in mine:
    if m['name'] not in ded_names:
      n = nat.get(m['name'], {})
      units.append({'unit': m['name'], 'file': m['file'], 'status': 'bounded-only',
                    'obligations': 0, 'discharged': 0,
                    'bounded_back_end_evaluations': n.get('evaluations', 0),
                    'contract': {'requires': m.get('requires', []), 'ensures': m.get('ensures', []),
                                 'raises': m.get('raises', {})},
                    'note': 'bounded stand-in: contract executed natively on the real function; not proved'})
  trusted = list(GENERIC_ASSUMPTIONS)
  for u in ext:
    if any(p in u.get('props', []) for p in [prop]) or any(
        u['name'] in json.dumps(m.get('retype', {})) + ' '.join(m.get('requires', []) + m.get('ensures', []))
        for m in mine):
      trusted.append('assumed contract (external, body not verified): %s in %s' % (u['name'], u['file']))
  for m in mine:
    for r_ in m.get('requires', []):
      pass
  cov = {
      'obligations': n_obl,
      'discharged': n_dis,
      'checker_cmd': './check run %s --tier %s' % (prop, tier),
      'trusted_base': trusted,
      'back_ends': backends,
      'solver_time_s': round(vc_time, 3),
      'units_under_contract': units,
      'undecided': undecided,
      'evaluations': nat_evals + extra_evals,
      'distinct_nontrivial': sum(1 for n in nat.values() for _ in range(n['evaluations'])) and
                             (nat_evals + extra_nontrivial),
      'rule': 'bounded back end: each unit\'s enumerator (contracts/*.py `native=`) feeds the real '
              'function wrapped in the same contract text; a case counts when the precondition holds '
              '(skipped cases are not counted). Property specific bounded contracts: ' +
              '; '.join('%s: %s' % (e['name'], e.get('rule', '')) for e in extra),
      'samples': samples + nat_samples + [s for e in extra for s in e.get('samples', [])[:2]],
      'bounded_checks': [{k: v for k, v in e.items() if k not in ('violations', 'samples')} for e in extra],
      'explanation': meta.get('explanation') or 'property not yet claimed in MANIFEST.json; see DESIGN.md',
      'exhaustive': False,
      'known_findings_reported': known_hits,
  }
  if not cov['samples']:
    cov['samples'] = [{'note': 'no sample recorded'}]
  ev = {
      'property_id': prop, 'tier': tier, 'seed': seed, 'level': level, 'coverage': cov,
      'assumptions': trusted + meta.get('assumptions', []) +
                     ['precondition of %s: %s' % (m['name'], r_) for m in mine for r_ in m.get('requires', [])] +
                     ['axiom assumed in %s (spec function / ghost introduction / pure callee): %s' % (m['name'], a_)
                      for m in mine for a_ in m.get('axioms', [])] +
                     ['ghost field of %s given by definition: %s := lambda %s: %s' % (m['name'], g_, d_[0], d_[2])
                      for m in mine for g_, d_ in m.get('ghost_defs', {}).items()] +
                     ['%s: hypotheses are filtered per obligation by `focus` hints (sound: hypotheses are only dropped)'
                      % m['name'] for m in mine if any('focus' in l_ for l_ in m.get('loops', {}).values())],
      'wall_s': round(wall, 2), 'violations': n_viol,
  }
  return ev


def write(prop, ev):
  # evidence describes /repo itself; a run against a scratch copy (VERIF_REPO=...) writes elsewhere
  sub = 'evidence' if os.path.realpath(os.environ.get('VERIF_REPO', '/repo')) == '/repo' else 'replays/scratch_evidence'
  os.makedirs(os.path.join(HERE, sub), exist_ok=True)
  path = os.path.join(HERE, sub, prop + '.json')
  try:
    import jsonschema
    if os.path.exists(SCHEMA):
      jsonschema.validate(ev, json.load(open(SCHEMA)))
  except ImportError:
    pass
  with open(path, 'w') as f:
    json.dump(ev, f, indent=1, default=str)
