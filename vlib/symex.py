"""Symbolic executor over the Python AST of real /repo functions -> named proof obligations.

Forward execution with path splitting; loops are cut at the sidecar invariants (init / preserved /
decreases), calls to other units under contract are replaced by assert-pre / havoc-modifies /
assume-post, `yield` appends to the ghost list `__yields`.  Anything outside the supported subset
raises Unsupported: no VC is generated for that unit and the caller reports it as undecided.
"""
import ast
import z3

from . import sv
from .sv import V, Ty, INT, BOOL, STR, NONE, VAL


class Unsupported(Exception):
  pass


class Obl:
  """One verification condition:  /\\ pc  ==>  goal."""

  def __init__(self, name, kind, pc, goal, line, text, expect='valid'):
    self.name = name
    self.kind = kind
    self.pc = list(pc)
    self.goal = goal
    self.line = line
    self.text = text
    self.expect = expect      # 'valid' or 'sat' (vacuity probes: pc must be satisfiable)
    self.result = None
    self.model = None
    self.time = 0.0
    self.backend = None
    self.vars = {}


class St:
  def __init__(self):
    self.env = {}
    self.pc = []
    self.ghost = {}

  def copy(self):
    s = St()
    s.env = dict(self.env)
    s.pc = list(self.pc)
    s.ghost = dict(self.ghost)
    return s


NORMAL, RETURN, RAISE, BREAK, CONTINUE = 'normal', 'return', 'raise', 'break', 'continue'


class Callable_:
  """Something callable inside the unit: contracted unit, inline def, builtin or bound method."""

  def __init__(self, kind, **kw):
    self.kind = kind
    self.__dict__.update(kw)


class RecV:
  """A locally created object: a record of symbolic fields (no aliasing: copied on write)."""

  def __init__(self, cls, fields):
    self.cls = cls
    self.fields = dict(fields)
    self.t = Ty('rec', (cls,))
    self.meta = None


def truthy(v):
  k = v.t.kind
  if k == 'bool':
    return v.z
  if k == 'int':
    return v.z != 0
  if k == 'str':
    return z3.Length(v.z) > 0
  if k == 'none':
    return z3.BoolVal(False)
  if k == 'list':
    return sv.l_len(v) > 0
  if k == 'opt':
    return z3.And(z3.Not(sv.opt_is_none(v)), truthy(sv.opt_val(v)))
  if k == 'set':
    return v.z != sv.empty_set_z(v.t)
  if k == 'dict':
    return sv.d_keys(v) != z3.K(sv.zsort(v.t.args[0]), z3.BoolVal(False))
  if k == 'val':
    s = sv.val_sort()
    return z3.Or(z3.And(s.is_VInt(v.z), s.vint(v.z) != 0),
                 z3.And(s.is_VStr(v.z), z3.Length(s.vstr(v.z)) > 0),
                 z3.And(s.is_VBool(v.z), s.vbool(v.z)),
                 s.is_VOther(v.z))
  if k in ('tuple',):
    return z3.BoolVal(len(v.t.args) > 0)
  if k == 'U':
    return z3.BoolVal(True)
  raise Unsupported('truthiness of %r' % (v.t,))


def coerce(v, t):
  """Converts v to type t where Python would see the same object (None/int into opt, leaf into val)."""
  if v.t == t:
    return v
  if t.kind == 'opt':
    if v.t.kind == 'none':
      return sv.opt_none(t)
    return sv.opt_some(t, coerce(v, t.args[0]))
  if t.kind == 'val':
    s = sv.val_sort()
    if v.t.kind == 'int':
      return V(VAL, s.VInt(v.z))
    if v.t.kind == 'str':
      return V(VAL, s.VStr(v.z))
    if v.t.kind == 'bool':
      return V(VAL, s.VBool(v.z))
    if v.t.kind == 'none':
      return V(VAL, s.VNone)
  if t.kind == 'list' and v.t.kind == 'list' and v.meta == 'empty':
    return sv.list_from_elems(t, [])
  if t.kind == 'set' and v.meta == 'empty':
    return V(t, sv.empty_set_z(t))
  if t.kind == 'dict' and v.meta == 'empty':
    return empty_dict(t)
  raise Unsupported('cannot coerce %r to %r' % (v.t, t))


def empty_dict(t):
  return sv.mk_dict(t, z3.K(sv.zsort(t.args[0]), z3.BoolVal(False)),
                    z3.K(sv.zsort(t.args[0]), sv.default_z(t.args[1])))


def int_to_str(z):
  return z3.If(z < 0, z3.Concat(z3.StringVal('-'), z3.IntToStr(-z)), z3.IntToStr(z))


def to_str(v):
  if v.t.kind == 'str':
    return v.z
  if v.t.kind == 'int':
    return int_to_str(v.z)
  if v.t.kind == 'U':
    return uf('str_of_%s' % v.t.args[0], [sv.zsort(v.t)], z3.StringSort())(v.z)
  if v.t.kind == 'val':
    # str() of a dynamically typed value: an uninterpreted function of the value
    return uf('str_of_val', [sv.zsort(v.t)], z3.StringSort())(v.z)
  raise Unsupported('str() of %r' % (v.t,))


_ufs = {}
LIST_UFS = {}     # name -> (function, list type): functions returning Python lists


def uf(name, argsorts, ressort, rett=None):
  key = name
  if key not in _ufs:
    _ufs[key] = z3.Function(name, *(list(argsorts) + [ressort]))
  if rett is not None and rett.kind == 'list':
    LIST_UFS[key] = (_ufs[key], rett)
  return _ufs[key]


def eq(a, b):
  """Python == on two symbolic values (value semantics)."""
  if a.t != b.t:
    if a.t.kind == 'opt' or b.t.kind == 'opt' or a.t.kind == 'val' or b.t.kind == 'val':
      if a.t.kind == 'opt':
        t = a.t
      elif b.t.kind == 'opt':
        t = b.t
      else:
        t = VAL
      return eq(coerce(a, t), coerce(b, t))
    if a.meta == 'empty':
      return eq(coerce(a, b.t), b)
    if b.meta == 'empty':
      return eq(a, coerce(b, a.t))
    if {a.t.kind, b.t.kind} <= {'int', 'bool'}:
      ai = a.z if a.t.kind == 'int' else z3.If(a.z, 1, 0)
      bi = b.z if b.t.kind == 'int' else z3.If(b.z, 1, 0)
      return ai == bi
    if 'none' in (a.t.kind, b.t.kind):
      return z3.BoolVal(False)
    raise Unsupported('== between %r and %r' % (a.t, b.t))
  k = a.t.kind
  if k == 'list' and not _constructed(a.z) and not _constructed(b.z):
    # neither side is built here (variables, elements, function results): same stored value
    return a.z == b.z
  if k == 'list':
    i = z3.Int(sv.fresh_name('eqk'))
    ea = V(a.t.args[0], z3.Select(sv.l_arr(a), i))
    eb = V(a.t.args[0], z3.Select(sv.l_arr(b), i))
    # elements that are themselves containers are compared as terms (identity of the stored
    # value): sound in goals, and a clause is translated the same way where it is assumed
    inner = (ea.z == eb.z) if ea.t.kind in ('list', 'dict', 'set') else eq(ea, eb)
    return z3.And(sv.l_len(a) == sv.l_len(b),
                  z3.ForAll([i], z3.Implies(z3.And(0 <= i, i < sv.l_len(a)), inner)))
  if k == 'dict':
    kk = z3.Const(sv.fresh_name('eqk'), sv.zsort(a.t.args[0]))
    va = V(a.t.args[1], z3.Select(sv.d_vals(a), kk))
    vb = V(a.t.args[1], z3.Select(sv.d_vals(b), kk))
    return z3.And(sv.d_keys(a) == sv.d_keys(b),
                  z3.ForAll([kk], z3.Implies(z3.Select(sv.d_keys(a), kk), eq(va, vb))))
  if k == 'tuple':
    return z3.And(*[eq(sv.tuple_get(a, i), sv.tuple_get(b, i)) for i in range(len(a.t.args))]) \
        if a.t.args else z3.BoolVal(True)
  if k == 'opt':
    return z3.Or(z3.And(sv.opt_is_none(a), sv.opt_is_none(b)),
                 z3.And(z3.Not(sv.opt_is_none(a)), z3.Not(sv.opt_is_none(b)),
                        eq(sv.opt_val(a), sv.opt_val(b))))
  if k == 'none':
    return z3.BoolVal(True)
  return a.z == b.z


def normalise_list(v):
  if v.t.kind != 'list' or v.meta == 'empty':
    return v
  if not _constructed(v.z):
    return v            # variables / function results / elements are used as they are
  i = z3.Int('i!nl')
  n = sv.l_len(v)
  arr = z3.Lambda([i], z3.If(z3.And(0 <= i, i < n), z3.Select(sv.l_arr(v), i), sv.default_z(v.t.args[0])))
  return sv.mk_list(v.t, arr, n)


def _constructed(z):
  try:
    return z3.is_app(z) and z.decl().name() == 'mk'
  except z3.Z3Exception:
    return True


def str_index(s, i):
  """s[i] for Python semantics given the index is in range."""
  n = z3.Length(s)
  j = z3.If(i < 0, i + n, i)
  return z3.SubString(s, j, 1)


def clamp_slice(n, a, b):
  """Python slice bounds (step 1) for a sequence of length n; a/b are z3 ints or None."""
  if a is None:
    lo = z3.IntVal(0)
  else:
    lo = z3.If(a < 0, z3.If(a + n < 0, 0, a + n), z3.If(a > n, n, a))
  if b is None:
    hi = n
  else:
    hi = z3.If(b < 0, z3.If(b + n < 0, 0, b + n), z3.If(b > n, n, b))
  return lo, hi


def str_slice(s, a, b):
  n = z3.Length(s)
  lo, hi = clamp_slice(n, a, b)
  return z3.SubString(s, lo, z3.If(hi - lo < 0, 0, hi - lo))


def list_slice(v, a, b):
  n = sv.l_len(v)
  lo, hi = clamp_slice(n, a, b)
  ln = z3.If(hi - lo < 0, 0, hi - lo)
  i = z3.Int('i!sl')
  arr = z3.Lambda([i], z3.Select(sv.l_arr(v), i + lo))
  return sv.mk_list(v.t, arr, ln)


def list_concat(a, b):
  i = z3.Int('i!cc')
  na = sv.l_len(a)
  arr = z3.Lambda([i], z3.If(i < na, z3.Select(sv.l_arr(a), i), z3.Select(sv.l_arr(b), i - na)))
  return sv.mk_list(a.t, arr, na + sv.l_len(b))


def list_append(v, e):
  return sv.mk_list(v.t, z3.Store(sv.l_arr(v), sv.l_len(v), e.z), sv.l_len(v) + 1)


def list_insert_slice(v, pos, ins):
  """v[pos:pos] = ins   with 0 <= pos <= len(v)."""
  i = z3.Int('i!ins')
  k = sv.l_len(ins)
  arr = z3.Lambda([i], z3.If(i < pos, z3.Select(sv.l_arr(v), i),
                             z3.If(i < pos + k, z3.Select(sv.l_arr(ins), i - pos),
                                   z3.Select(sv.l_arr(v), i - k))))
  return sv.mk_list(v.t, arr, sv.l_len(v) + k)


def list_delete(v, pos):
  i = z3.Int('i!del')
  arr = z3.Lambda([i], z3.If(i < pos, z3.Select(sv.l_arr(v), i), z3.Select(sv.l_arr(v), i + 1)))
  return sv.mk_list(v.t, arr, sv.l_len(v) - 1)


def list_contains(v, e):
  i = z3.Int(sv.fresh_name('ink'))
  return z3.Exists([i], z3.And(0 <= i, i < sv.l_len(v),
                               eq(V(v.t.args[0], z3.Select(sv.l_arr(v), i)), e)))


def set_of_list(v):
  t = Ty('set', [v.t.args[0]])
  x = z3.Const('x!sol', sv.zsort(v.t.args[0]))
  i = z3.Int('i!sol')
  return V(t, z3.Lambda([x], z3.Exists([i], z3.And(0 <= i, i < sv.l_len(v),
                                                    z3.Select(sv.l_arr(v), i) == x))))


class Engine:
  """Executes one unit (ast.FunctionDef) against its sidecar contract."""

  def __init__(self, unit, registry):
    self.u = unit                # dict: the sidecar entry (+ 'node', 'info')
    self.reg = registry          # name -> unit dict (callee contracts, spec functions)
    self.obls = []
    self.node = unit.get('node')
    self.base_line = self.node.lineno if self.node is not None else 0
    self.inlines = {}
    self.loop_counter = 0
    self.exits = []              # (state, outcome, value) at unit exits
    self.consts = unit.get('consts', {})
    self.guards = []             # expression-level guards (short circuit)
    self.spec = False
    self.old_env = None
    self.bound = {}              # quantifier-bound names
    self.axioms = []             # global assumptions (spec function axioms)
    self.assuming = False        # evaluating a callee postcondition that will be assumed

  # ---------------------------------------------------------------- obligations
  def emit(self, st, kind, goal, node=None, text='', tag='', focus=None):
    line = (node.lineno - self.base_line) if node is not None and hasattr(node, 'lineno') else 0
    name = '%s/%s%s' % (self.u['name'], kind, tag)
    if node is not None and kind.startswith('safe'):
      name += '@L%d' % line
    pc = list(st.pc) + list(self.guards)
    if focus is not None:
      pc = self.focused(pc, focus[0], focus[1])
    self.obls.append(Obl(name, kind, pc, goal, line, text))

  def assume(self, st, f):
    st.pc.append(f)

  def tagged(self, f, tag):
    """Remembers where an assumption came from (an invariant of loop i, a precondition), so that a `focus` hint
    of the sidecar can leave out assumptions an obligation does not need (dropping hypotheses is always sound)."""
    self.__dict__.setdefault('ftags', {})[f.get_id()] = tag
    return f

  def focused(self, pc, idx, k):
    spec = self.u.get('loops', {}).get(idx, {}).get('focus', {}).get(k)
    if spec is None:
      return pc
    keep_inv = {(idx, x) if isinstance(x, int) else tuple(x) for x in spec.get('inv', [])}
    keep_req = spec.get('req')
    tags = self.__dict__.get('ftags', {})
    out = []
    for f in pc:
      t = tags.get(f.get_id())
      if t is None:
        out.append(f)
      elif t[0] == 'inv' and (t[1], t[2]) in keep_inv:
        out.append(f)
      elif t[0] == 'req' and (keep_req is None or t[1] in keep_req):
        out.append(f)
    return out

  # ---------------------------------------------------------------- types
  def ty(self, s):
    return sv.parse_type(s) if isinstance(s, str) else s

  def declared(self, name):
    for key in ('types', 'locals', 'fields'):
      d = self.u.get(key, {})
      if name in d:
        return self.ty(d[name])
    return None

  # ---------------------------------------------------------------- expressions
  def ev(self, n, st, want=None):
    ab = self.u.get('abstract_exprs')
    if ab and isinstance(n, (ast.Subscript, ast.Call, ast.Compare, ast.Attribute, ast.SetComp, ast.ListComp, ast.DictComp)):
      key = ast.unparse(n)
      if key not in ab and isinstance(n, ast.Compare) and len(n.ops) == 1 and isinstance(n.ops[0], ast.NotIn):
        pos = ast.Compare(left=n.left, ops=[ast.In()], comparators=n.comparators)
        if ast.unparse(pos) in ab:
          return sv.mk_bool(z3.Not(self.ev(ast.copy_location(pos, n), st).z))
      if key in ab:
        ufname, argnames, rett = ab[key]
        args = [self.e_Name(ast.Name(id=a, lineno=getattr(n, 'lineno', 0)), st) for a in argnames]
        f = uf('spec_' + ufname, [sv.zsort(a.t) for a in args], sv.zsort(self.ty(rett)), self.ty(rett))
        return V(self.ty(rett), f(*[a.z for a in args]))
    m = getattr(self, 'e_' + type(n).__name__, None)
    if m is None:
      raise Unsupported('expression %s at line %d' % (type(n).__name__, getattr(n, 'lineno', 0)))
    v = m(n, st, want) if m.__code__.co_argcount == 4 else m(n, st)
    if want is not None and isinstance(v, V) and not isinstance(want, str) and v.t != want:
      if v.t.kind in ('list', 'set', 'dict') and want.kind in ('list', 'set', 'dict') and v.t.kind != want.kind \
          and v.meta != 'empty':
        return v       # a local rebound to a container of another kind (`xs = set(xs)`): re-typed on this path
      v = coerce(v, want)
    return v

  def unwrap(self, v, st, node, what='value'):
    """Using an optional where Python needs an object: obligation `is not None`, then the value."""
    if isinstance(v, V) and v.t.kind == 'opt':
      self.emit(st, 'safe-none', z3.Not(sv.opt_is_none(v)), node, '%s is not None' % what)
      return sv.opt_val(v)
    return v

  def e_Constant(self, n, st, want=None):
    c = n.value
    if c is None:
      return sv.mk_none()
    if isinstance(c, bool):
      return sv.mk_bool(c)
    if isinstance(c, int):
      return sv.mk_int(c)
    if isinstance(c, str):
      return sv.mk_str(c)
    raise Unsupported('constant %r' % (c,))

  def e_Name(self, n, st):
    name = n.id
    if name in self.bound:
      return self.bound[name]
    if name in st.env:
      return st.env[name]
    if name == 'self' and self.u.get('self_str'):
      return self.e_Attribute(ast.Attribute(value=ast.Name(id='self'), attr=self.u['self_str'],
                                            lineno=n.lineno), st)
    if name in self.u.get('calls', {}):
      return Callable_('unit', unit=self.reg[self.u['calls'][name]], self_=None)
    if name in self.u.get('ufs', {}):
      return Callable_('uf', name=name)
    if name in self.u.get('constructors', {}):
      return Callable_('ctor', name=name)
    if name in self.inlines:
      return Callable_('inline', fdef=self.inlines[name])
    if name in self.consts:
      return self.lift(self.consts[name])
    if name in ('True', 'False', 'None'):
      return {'True': sv.mk_bool(True), 'False': sv.mk_bool(False), 'None': sv.mk_none()}[name]
    if self.spec and name in self.u.get('spec_calls', {}):
      return Callable_('unit', unit=self.reg[self.u['spec_calls'][name]], self_=None)
    if self.spec and name in self.u.get('spec_funcs', {}):
      return Callable_('specfn', name=name)
    if name in self.reg:
      return Callable_('unit', unit=self.reg[name], self_=None)
    if name in BUILTINS or (self.spec and name in SPEC_BUILTINS):
      return Callable_('builtin', name=name)
    raise Unsupported('unknown name %s at line %d' % (name, n.lineno))

  def lift(self, c, want=None):
    """Python constant -> symbolic value."""
    if c is None:
      return sv.mk_none()
    if isinstance(c, bool):
      return sv.mk_bool(c)
    if isinstance(c, int):
      return sv.mk_int(c)
    if isinstance(c, str):
      return sv.mk_str(c)
    if isinstance(c, (list, tuple)) and isinstance(c, list):
      elems = [self.lift(x) for x in c]
      if not elems:
        return V(Ty('list', [INT]), None, meta='empty')
      return sv.list_from_elems(Ty('list', [elems[0].t]), elems)
    if isinstance(c, tuple):
      return sv.mk_tuple([self.lift(x) for x in c])
    if isinstance(c, dict):
      ks = [self.lift(k) for k in c]
      vs = [self.lift(x) for x in c.values()]
      t = Ty('dict', [ks[0].t, vs[0].t])
      d = empty_dict(t)
      for k, x in zip(ks, vs):
        d = sv.mk_dict(t, z3.Store(sv.d_keys(d), k.z, True), z3.Store(sv.d_vals(d), k.z, x.z))
      return d
    raise Unsupported('constant %r' % (c,))

  def e_Attribute(self, n, st):
    dn = dotted_name(n)
    if dn and dn in self.u.get('calls', {}):
      return Callable_('unit', unit=self.reg[self.u['calls'][dn]], self_=None)
    if dn and dn.startswith('self.') and dn.count('.') > 1 and 'self' not in self.bound:
      if dn in st.env:
        return st.env[dn]
      t = self.declared(dn)
      if t is not None:
        st.env[dn] = sv.const(t, dn)
        return st.env[dn]
    if isinstance(n.value, ast.Name) and n.value.id == 'cls':
      cls = self.u.get('cls')
      full = (cls + '.' + n.attr) if cls else n.attr
      if full in self.reg:
        return Callable_('unit', unit=self.reg[full], self_='cls')
    if isinstance(n.value, ast.Name) and n.value.id == 'self' and 'self' not in self.bound:
      key = 'self.' + n.attr
      if key in st.env:
        return st.env[key]
      cls = self.u.get('cls')
      full = (cls + '.' + n.attr) if cls else n.attr
      full = self.u.get('retype', {}).get(full, full)
      if full in self.reg:
        return Callable_('unit', unit=self.reg[full], self_='self')
      t = self.declared(key)
      if t is not None:
        st.env[key] = sv.const(t, key)
        return st.env[key]
      raise Unsupported('unknown field %s at line %d' % (key, n.lineno))
    # module attribute e.g. heapq._heapify_max, rule_translate.RuleCompileException
    dotted = dotted_name(n)
    if dotted and dotted in self.reg:
      return Callable_('unit', unit=self.reg[dotted], self_=None)
    if dotted and dotted.split('.')[-1] in self.u.get('exceptions', EXC_NAMES):
      return Callable_('exc', name=dotted.split('.')[-1])
    base = self.ev(n.value, st)
    if isinstance(base, RecV):
      if n.attr not in base.fields:
        raise Unsupported('no field %s on %s' % (n.attr, base.cls))
      return base.fields[n.attr]
    return Callable_('method', base=base, name=n.attr, node=n.value)

  def e_BoolOp(self, n, st):
    vals = []
    saved = len(self.guards)
    try:
      for i, sub in enumerate(n.values):
        v = self.ev(sub, st)
        b = truthy(v)
        vals.append((v, b))
        self.guards.append(b if isinstance(n.op, ast.And) else z3.Not(b))
    finally:
      del self.guards[saved:]
    if all(v.t.kind == 'bool' for v, _ in vals):
      zs = [b for _, b in vals]
      return sv.mk_bool(z3.And(*zs) if isinstance(n.op, ast.And) else z3.Or(*zs))
    if len({v.t for v, _ in vals}) > 1 and not all(
        v.t.kind in ('opt', 'none') or v.meta == 'empty' for v, _ in vals):
      # mixed types: only the truthiness of the chain is well-typed in this subset
      zs = [b for _, b in vals]
      r = sv.mk_bool(z3.And(*zs) if isinstance(n.op, ast.And) else z3.Or(*zs))
      r.meta = 'truthiness-only'
      return r
    # value-returning and/or: a or b -> a if truthy(a) else b
    res = vals[-1][0]
    for v, b in reversed(vals[:-1]):
      if v.t != res.t:
        t = unify_types(v.t, res.t)
        v, res = coerce(v, t), coerce(res, t)
      cond = b if isinstance(n.op, ast.Or) else z3.Not(b)
      res = V(res.t, z3.If(cond, v.z, res.z))
    return res

  def e_UnaryOp(self, n, st):
    v = self.ev(n.operand, st)
    if isinstance(n.op, ast.Not):
      return sv.mk_bool(z3.Not(truthy(v)))
    if isinstance(n.op, ast.USub) and v.t.kind == 'int':
      return sv.mk_int(-v.z)
    raise Unsupported('unary op')

  def e_IfExp(self, n, st):
    c = truthy(self.ev(n.test, st))
    self.guards.append(c)
    try:
      a = self.ev(n.body, st)
    finally:
      self.guards.pop()
    self.guards.append(z3.Not(c))
    try:
      b = self.ev(n.orelse, st)
    finally:
      self.guards.pop()
    if a.t != b.t:
      t = unify_types(a.t, b.t)
      a, b = coerce(a, t), coerce(b, t)
    return V(a.t, z3.If(c, a.z, b.z))

  def e_BinOp(self, n, st):
    op = n.op
    if isinstance(op, ast.Mod) and isinstance(n.left, ast.Constant) and isinstance(n.left.value, str):
      return self.format_percent(n.left.value, n.right, st)
    a = self.ev(n.left, st)
    b = self.ev(n.right, st)
    return self.binop(op, a, b, st, n)

  def binop(self, op, a, b, st, n=None):
    if isinstance(a, V) and a.t.kind == 'opt' and isinstance(op, (ast.Add, ast.Sub, ast.Mult, ast.Mod, ast.FloorDiv)):
      a = self.unwrap(a, st, n, 'left operand')
    if isinstance(b, V) and b.t.kind == 'opt' and isinstance(op, (ast.Add, ast.Sub, ast.Mult, ast.Mod, ast.FloorDiv)):
      b = self.unwrap(b, st, n, 'right operand')
    ka, kb = a.t.kind, b.t.kind
    if ka == 'int' and kb == 'int':
      if isinstance(op, ast.Add):
        return sv.mk_int(a.z + b.z)
      if isinstance(op, ast.Sub):
        return sv.mk_int(a.z - b.z)
      if isinstance(op, ast.Mult):
        return sv.mk_int(a.z * b.z)
      if isinstance(op, (ast.FloorDiv, ast.Mod)):
        self.emit(st, 'safe-div', b.z != 0, n, 'division by zero')
        # python floor division / modulo (sign of divisor); z3 div is euclidean
        q = z3.If(b.z > 0, a.z / b.z, -((-a.z) / (-b.z))) if False else None
        d = b.z
        fq = z3.If(d > 0, a.z / d, (-a.z) / (-d))
        if isinstance(op, ast.FloorDiv):
          return sv.mk_int(fq)
        return sv.mk_int(a.z - d * fq)
    if ka == 'str' and kb == 'str' and isinstance(op, ast.Add):
      return sv.mk_str(z3.Concat(a.z, b.z))
    if ka == 'str' and kb == 'int' and isinstance(op, ast.Mult):
      raise Unsupported('str * int')
    if ka == 'list' and kb == 'list' and isinstance(op, ast.Add):
      if a.meta == 'empty':
        return b
      if b.meta == 'empty':
        return a
      if self.u.get('concat_axioms') and not self.spec and st is not None:
        # a + b as a fresh list constant characterised position by position (triggers on c[j], a[i], b[i]); the
        # lambda form needs the solver to invent `len(a) + i` as a witness, which it does not
        c = sv.fresh(a.t, 'concat')
        i = z3.Int(sv.fresh_name('ci'))
        na, nb = sv.l_len(a), sv.l_len(b)
        ca, aa, ba = sv.l_arr(c), sv.l_arr(a), sv.l_arr(b)
        st.pc.append(sv.l_len(c) == na + nb)
        st.pc.append(z3.ForAll([i], z3.Implies(z3.And(0 <= i, i < na), z3.Select(ca, i) == z3.Select(aa, i)),
                               patterns=[z3.Select(ca, i), z3.Select(aa, i)]))
        st.pc.append(z3.ForAll([i], z3.Implies(z3.And(0 <= i, i < nb), z3.Select(ca, na + i) == z3.Select(ba, i)),
                               patterns=[z3.Select(ba, i)]))
        st.pc.append(z3.ForAll([i], z3.Implies(z3.And(na <= i, i < na + nb), z3.Select(ca, i) == z3.Select(ba, i - na)),
                               patterns=[z3.Select(ca, i)]))
        return c
      return list_concat(a, b)
    if ka == 'set' and kb == 'set':
      x = z3.Const('x!so', sv.zsort(a.t.args[0]))
      if a.meta == 'empty':
        a = coerce(a, b.t)
      if b.meta == 'empty':
        b = coerce(b, a.t)
      if self.u.get('set_axioms') and not self.spec and st is not None and \
          isinstance(op, (ast.BitOr, ast.BitAnd, ast.Sub)):
        # the result as a fresh set constant defined point by point (no array lambda: cvc5 can read it)
        c = sv.fresh(a.t, 'setop')
        xs = z3.Const(sv.fresh_name('sx'), sv.zsort(a.t.args[0]))
        ina, inb = z3.Select(a.z, xs), z3.Select(b.z, xs)
        body = {ast.BitOr: z3.Or(ina, inb), ast.BitAnd: z3.And(ina, inb), ast.Sub: z3.And(ina, z3.Not(inb))}[type(op)]
        st.pc.append(z3.ForAll([xs], z3.Select(c.z, xs) == body, patterns=[z3.Select(c.z, xs)]))
        return c
      if isinstance(op, ast.BitOr):
        return V(a.t, z3.Lambda([x], z3.Or(z3.Select(a.z, x), z3.Select(b.z, x))))
      if isinstance(op, ast.BitAnd):
        return V(a.t, z3.Lambda([x], z3.And(z3.Select(a.z, x), z3.Select(b.z, x))))
      if isinstance(op, ast.Sub):
        return V(a.t, z3.Lambda([x], z3.And(z3.Select(a.z, x), z3.Not(z3.Select(b.z, x)))))
    raise Unsupported('binop %s on %r, %r' % (type(op).__name__, a.t, b.t))

  def format_percent(self, fmt, right, st):
    if isinstance(right, ast.Tuple):
      args = [self.ev(e, st) for e in right.elts]
    else:
      args = [self.ev(right, st)]
      if args[0].t.kind == 'tuple':
        args = [sv.tuple_get(args[0], i) for i in range(len(args[0].t.args))]
    parts = []
    i = 0
    ai = 0
    buf = ''
    while i < len(fmt):
      if fmt[i] == '%':
        c = fmt[i + 1] if i + 1 < len(fmt) else ''
        if c == '%':
          buf += '%'
          i += 2
          continue
        if c in 'sd':
          if buf:
            parts.append(z3.StringVal(buf))
            buf = ''
          if ai >= len(args):
            raise Unsupported('format: not enough args')
          a = args[ai]
          ai += 1
          parts.append(self.fmt_arg(a, c, st, right))
          i += 2
          continue
        raise Unsupported('format directive %%%s' % c)
      buf += fmt[i]
      i += 1
    if buf:
      parts.append(z3.StringVal(buf))
    if ai != len(args):
      raise Unsupported('format: too many args')
    return sv.mk_str(concat(parts))

  def fmt_arg(self, a, c, st, node):
    if a.t.kind == 'opt':
      if c == 'd':
        self.emit(st, 'safe-format', z3.Not(sv.opt_is_none(a)), node, '%d of None')
        a = sv.opt_val(a)
      else:
        raise Unsupported('%%s of optional')
    if a.t.kind == 'val':
      vs = sv.val_sort()
      if c == 'd':
        self.emit(st, 'safe-format', z3.Or(vs.is_VInt(a.z), vs.is_VBool(a.z)), node, '%d of non-number')
        return z3.If(vs.is_VBool(a.z), z3.If(vs.vbool(a.z), z3.StringVal('1'), z3.StringVal('0')),
                     int_to_str(vs.vint(a.z)))
      raise Unsupported('%%s of val')
    if c == 'd' and a.t.kind != 'int':
      raise Unsupported('%%d of %r' % (a.t,))
    return to_str(a)

  def format_braces(self, fmt, args, kwargs):
    parts = []
    buf = ''
    i = 0
    auto = 0
    while i < len(fmt):
      c = fmt[i]
      if c == '{':
        if fmt[i + 1:i + 2] == '{':
          buf += '{'
          i += 2
          continue
        j = fmt.index('}', i)
        key = fmt[i + 1:j]
        if buf:
          parts.append(z3.StringVal(buf))
          buf = ''
        if key == '':
          a = args[auto]
          auto += 1
        elif key.isdigit():
          a = args[int(key)]
        elif key in kwargs:
          a = kwargs[key]
        else:
          raise Unsupported('format key %r' % key)
        parts.append(to_str(a))
        i = j + 1
        continue
      if c == '}':
        if fmt[i + 1:i + 2] == '}':
          buf += '}'
          i += 2
          continue
        raise Unsupported('single } in format')
      buf += c
      i += 1
    if buf:
      parts.append(z3.StringVal(buf))
    return sv.mk_str(concat(parts))

  def e_JoinedStr(self, n, st):
    parts = []
    for p in n.values:
      if isinstance(p, ast.Constant):
        parts.append(z3.StringVal(p.value))
      elif isinstance(p, ast.FormattedValue):
        if p.format_spec is not None or p.conversion != -1:
          raise Unsupported('f-string format spec')
        parts.append(to_str(self.unwrap(self.ev(p.value, st), st, p.value, 'formatted value')))
    return sv.mk_str(concat(parts))

  def e_Compare(self, n, st):
    left = self.ev(n.left, st)
    conj = []
    for op, rn in zip(n.ops, n.comparators):
      right = self.ev(rn, st)
      conj.append(self.compare(op, left, right, st, n))
      left = right
    return sv.mk_bool(z3.And(*conj) if len(conj) > 1 else conj[0])

  def compare(self, op, a, b, st, n=None):
    if isinstance(op, (ast.Is, ast.IsNot)):
      if b.t.kind != 'none':
        raise Unsupported('is with non-None')
      if a.t.kind == 'opt':
        r = sv.opt_is_none(a)
      elif a.t.kind == 'none':
        r = z3.BoolVal(True)
      elif a.t.kind == 'val':
        r = sv.val_sort().is_VNone(a.z)
      else:
        r = z3.BoolVal(False)
      return r if isinstance(op, ast.Is) else z3.Not(r)
    if isinstance(op, ast.Eq):
      if self.assuming and a.t == b.t and a.t.kind in ('list', 'dict', 'opt', 'tuple') and \
          (is_free_symbol(a.z) or is_free_symbol(b.z)):
        # assumption `fresh == term`: the unconstrained symbol may be taken identical to the term
        return a.z == b.z
      return eq(a, b)
    if isinstance(op, ast.NotEq):
      return z3.Not(eq(a, b))
    if isinstance(op, (ast.In, ast.NotIn)):
      r = self.contains(b, a)
      return r if isinstance(op, ast.In) else z3.Not(r)
    ka, kb = a.t.kind, b.t.kind
    if ka == 'opt' and kb == 'int':
      self.emit(st, 'safe-cmp-none', z3.Not(sv.opt_is_none(a)), n, 'comparison with None')
      a, ka = sv.opt_val(a), a.t.args[0].kind
    if kb == 'opt' and ka == 'int':
      self.emit(st, 'safe-cmp-none', z3.Not(sv.opt_is_none(b)), n, 'comparison with None')
      b, kb = sv.opt_val(b), b.t.args[0].kind
    if ka == 'int' and kb == 'int':
      return {ast.Lt: a.z < b.z, ast.LtE: a.z <= b.z, ast.Gt: a.z > b.z, ast.GtE: a.z >= b.z}[type(op)]
    if ka == 'set' and kb == 'set':
      x = z3.Const(sv.fresh_name('sub'), sv.zsort(a.t.args[0]))
      if isinstance(op, ast.LtE):
        return z3.ForAll([x], z3.Implies(z3.Select(a.z, x), z3.Select(b.z, x)))
      if isinstance(op, ast.GtE):
        return z3.ForAll([x], z3.Implies(z3.Select(b.z, x), z3.Select(a.z, x)))
    if ka == 'U' and kb == 'U' and a.t == b.t:
      # total order on an uninterpreted sort: lt_<Sort> with the order axioms (see prove.py)
      lt = uf('lt_%s' % a.t.args[0], [sv.zsort(a.t)] * 2, z3.BoolSort())
      self.u.setdefault('_orders', set()).add(a.t.args[0])
      return {ast.Lt: lt(a.z, b.z), ast.LtE: z3.Not(lt(b.z, a.z)), ast.Gt: lt(b.z, a.z),
              ast.GtE: z3.Not(lt(a.z, b.z))}[type(op)]
    if ka == 'val' and kb == 'val':
      # ordering of dynamically typed values: two uninterpreted relations (no order axioms assumed;
      # a TypeError between incomparable values is not modelled)
      lt = uf('val_lt', [sv.zsort(a.t)] * 2, z3.BoolSort())
      le = uf('val_le', [sv.zsort(a.t)] * 2, z3.BoolSort())
      self.u.setdefault('_assumed', set()).add('ordering of dynamic values is uninterpreted; TypeError not modelled')
      return {ast.Lt: lt(a.z, b.z), ast.LtE: le(a.z, b.z), ast.Gt: lt(b.z, a.z), ast.GtE: le(b.z, a.z)}[type(op)]
    raise Unsupported('compare %s on %r, %r' % (type(op).__name__, a.t, b.t))

  def contains(self, cont, x):
    k = cont.t.kind
    if cont.meta == 'empty':
      return z3.BoolVal(False)
    if k in ('set', 'dict', 'list') and isinstance(x, V) and x.t.kind == 'opt' and cont.t.args[0].kind != 'opt':
      # None is not an element of a container of non-optional elements
      return z3.And(z3.Not(sv.opt_is_none(x)), self.contains(cont, sv.opt_val(x)))
    if k == 'set':
      return z3.Select(cont.z, coerce(x, cont.t.args[0]).z)
    if k == 'dict':
      return z3.Select(sv.d_keys(cont), coerce(x, cont.t.args[0]).z)
    if k == 'list':
      return list_contains(cont, coerce(x, cont.t.args[0]))
    if k == 'str' and x.t.kind == 'str':
      return z3.Contains(cont.z, x.z)
    if k == 'tuple':
      return z3.Or(*[eq(sv.tuple_get(cont, i), x) for i in range(len(cont.t.args))])
    raise Unsupported('in on %r' % (cont.t,))

  def e_Tuple(self, n, st):
    return sv.mk_tuple([self.ev(e, st) for e in n.elts])

  def e_List(self, n, st, want=None):
    if not n.elts:
      if want is not None and want.kind == 'list':
        return sv.list_from_elems(want, [])
      return V(Ty('list', [INT]), None, meta='empty')
    et = want.args[0] if want is not None and want.kind == 'list' else None
    elems = [self.ev(e, st, et) for e in n.elts]
    t = Ty('list', [elems[0].t])
    return sv.list_from_elems(t, elems)

  def e_Set(self, n, st, want=None):
    elems = [self.ev(e, st) for e in n.elts]
    t = Ty('set', [elems[0].t])
    z = sv.empty_set_z(t)
    for e in elems:
      z = z3.Store(z, e.z, True)
    return V(t, z)

  def e_Dict(self, n, st, want=None):
    if not n.keys:
      if want is not None and want.kind == 'dict':
        return empty_dict(want)
      return V(Ty('dict', [INT, INT]), None, meta='empty')
    raise Unsupported('dict display')

  def e_Subscript(self, n, st):
    base = self.ev(n.value, st)
    if isinstance(base, Callable_):
      raise Unsupported('subscript of callable')
    base = self.unwrap(base, st, n, 'subscripted object')
    k = base.t.kind
    sl = n.slice
    if isinstance(sl, ast.Slice):
      if sl.step is not None:
        raise Unsupported('slice step')
      a = self.ev(sl.lower, st).z if sl.lower is not None else None
      b = self.ev(sl.upper, st).z if sl.upper is not None else None
      if k == 'str':
        return sv.mk_str(str_slice(base.z, a, b))
      if k == 'list':
        return list_slice(base, a, b)
      raise Unsupported('slice of %r' % (base.t,))
    idx = self.ev(sl, st)
    if k == 'str':
      n_ = z3.Length(base.z)
      self.emit(st, 'safe-index', z3.And(-n_ <= idx.z, idx.z < n_), n, 'string index in range')
      return sv.mk_str(str_index(base.z, idx.z))
    if k == 'list':
      ln = sv.l_len(base)
      self.emit(st, 'safe-index', z3.And(-ln <= idx.z, idx.z < ln), n, 'list index in range')
      # an index that is syntactically non-negative (a bound variable of range(k, ..) with k >= 0, a
      # literal, sums of those) needs no wrap-around: keeps quantifier triggers of the form arr[i]
      j = idx.z if self.nonneg(idx.z) else z3.If(idx.z < 0, idx.z + ln, idx.z)
      return V(base.t.args[0], z3.Select(sv.l_arr(base), j))
    if k == 'dict':
      if isinstance(idx, V) and idx.t.kind == 'opt' and base.t.args[0].kind != 'opt':
        idx = self.unwrap(idx, st, n, 'dict key')      # None is never a key of this dict: obligation `is not None`
      key = coerce(idx, base.t.args[0])
      self.emit(st, 'safe-key', z3.Select(sv.d_keys(base), key.z), n, 'dict key present')
      return V(base.t.args[1], z3.Select(sv.d_vals(base), key.z))
    if k == 'tuple':
      if not isinstance(sl, ast.Constant):
        raise Unsupported('tuple index must be constant')
      return sv.tuple_get(base, sl.value)
    raise Unsupported('subscript of %r' % (base.t,))

  # ----- comprehensions / quantifiers
  def nonneg(self, z):
    if z3.is_int_value(z):
      return z.as_long() >= 0
    nn = self.__dict__.setdefault('nonneg_vars', set())
    if z3.is_const(z) and z.decl().kind() == z3.Z3_OP_UNINTERPRETED:
      return z.get_id() in nn
    if z3.is_app(z) and z.decl().kind() == z3.Z3_OP_ADD:
      return all(self.nonneg(c) for c in z.children())
    return False

  def e_GeneratorExp(self, n, st):
    raise Unsupported('bare generator expression')

  def quant(self, gen, st, is_all):
    """all(body for x in range(..)|set|list)  ->  forall / exists."""
    if len(gen.generators) != 1:
      raise Unsupported('nested generators')
    g = gen.generators[0]
    if not isinstance(g.target, ast.Name):
      raise Unsupported('generator target')
    name = g.target.id
    it = g.iter
    saved = self.bound.get(name)
    try:
      if isinstance(it, ast.Call) and isinstance(it.func, ast.Name) and it.func.id == 'Sort':
        tt = self.ty(it.args[0].value)
        k = z3.Const(sv.fresh_name(name), sv.zsort(tt))
        dom = z3.BoolVal(True)
        self.bound[name] = V(tt, k)
      elif isinstance(it, ast.Call) and isinstance(it.func, ast.Name) and it.func.id == 'range':
        k = z3.Int(sv.fresh_name(name))
        args = [self.ev(a, st).z for a in it.args]
        lo, hi = (z3.IntVal(0), args[0]) if len(args) == 1 else (args[0], args[1])
        dom = z3.And(lo <= k, k < hi)
        if self.nonneg(lo):
          self.__dict__.setdefault('nonneg_vars', set()).add(k.get_id())
        self.bound[name] = sv.mk_int(k)
      else:
        c = self.ev(it, st)
        if c.t.kind == 'set':
          k = z3.Const(sv.fresh_name(name), sv.zsort(c.t.args[0]))
          dom = z3.Select(c.z, k)
          self.bound[name] = V(c.t.args[0], k)
        elif c.t.kind == 'dict':
          k = z3.Const(sv.fresh_name(name), sv.zsort(c.t.args[0]))
          dom = z3.Select(sv.d_keys(c), k)
          self.bound[name] = V(c.t.args[0], k)
        elif c.t.kind == 'list':
          k = z3.Int(sv.fresh_name(name + '_i'))
          dom = z3.And(0 <= k, k < sv.l_len(c))
          self.bound[name] = V(c.t.args[0], z3.Select(sv.l_arr(c), k))
        else:
          raise Unsupported('quantifier over %r' % (c.t,))
      conds = [truthy(self.ev(c_, st)) for c_ in g.ifs]
      saved_g = len(self.guards)
      self.guards.append(dom)
      self.guards.extend(conds)
      try:
        body = truthy(self.ev(gen.elt, st))
      finally:
        del self.guards[saved_g:]
    finally:
      if saved is None:
        self.bound.pop(name, None)
      else:
        self.bound[name] = saved
    d = z3.And(dom, *conds) if conds else dom
    return z3.ForAll([k], z3.Implies(d, body)) if is_all else z3.Exists([k], z3.And(d, body))

  def e_ListComp(self, n, st, want=None):
    # [elt for x in range(a, b)] / [elt for x in L]  (no filter): a map
    if len(n.generators) == 1 and n.generators[0].ifs and isinstance(n.elt, ast.Name) and \
        isinstance(n.generators[0].target, ast.Name) and n.elt.id == n.generators[0].target.id:
      return self.filter_comp(n, st)
    if len(n.generators) != 1 or n.generators[0].ifs:
      raise Unsupported('list comprehension with filter / nesting')
    g = n.generators[0]
    if not isinstance(g.target, ast.Name):
      raise Unsupported('comprehension target')
    name = g.target.id
    k = z3.Int(sv.fresh_name(name + '_i'))
    saved = self.bound.get(name)
    try:
      if isinstance(g.iter, ast.Call) and isinstance(g.iter.func, ast.Name) and g.iter.func.id == 'range':
        args = [self.ev(a, st).z for a in g.iter.args]
        lo, hi = (z3.IntVal(0), args[0]) if len(args) == 1 else (args[0], args[1])
        ln = z3.If(hi - lo < 0, 0, hi - lo)
        self.bound[name] = sv.mk_int(k + lo)
      else:
        c = self.ev(g.iter, st)
        if c.t.kind != 'list':
          raise Unsupported('comprehension over %r' % (c.t,))
        ln = sv.l_len(c)
        self.bound[name] = V(c.t.args[0], z3.Select(sv.l_arr(c), k))
      self.guards.append(z3.And(0 <= k, k < ln))
      try:
        e = self.ev(n.elt, st, want.args[0] if want is not None and want.kind == 'list' else None)
      finally:
        self.guards.pop()
    finally:
      if saved is None:
        self.bound.pop(name, None)
      else:
        self.bound[name] = saved
    t = Ty('list', [e.t])
    return sv.mk_list(t, z3.Lambda([k], e.z), ln)

  def filter_comp(self, n, st):
    """[x for x in L if cond(x)]: a fresh list E with the assumed contract of a filter: E is the subsequence
    of L (strictly increasing source positions f) made of the elements that satisfy cond, and every element of L
    that satisfies cond occurs in E (at position g)."""
    g_ = n.generators[0]
    name = g_.target.id
    src = self.ev(g_.iter, st)
    if not isinstance(src, V) or src.t.kind != 'list' or src.meta == 'empty':
      raise Unsupported('filter comprehension over %r' % (getattr(src, 't', src),))
    et = src.t.args[0]
    E = sv.fresh(src.t, 'filtered')
    tagn = str(E.z)
    f = uf('fsrc_' + tagn, [z3.IntSort()], z3.IntSort())
    gi = uf('fdst_' + tagn, [z3.IntSort()], z3.IntSort())
    i, j = z3.Int(sv.fresh_name('fi')), z3.Int(sv.fresh_name('fj'))
    ln, sl = sv.l_len(E), sv.l_len(src)

    def cond(elem):
      saved = self.bound.get(name)
      self.bound[name] = V(et, elem)
      try:
        return z3.And(*[truthy(self.ev(c_, st)) for c_ in g_.ifs])
      finally:
        if saved is None:
          self.bound.pop(name, None)
        else:
          self.bound[name] = saved
    ei = z3.Select(sv.l_arr(E), i)
    self.assume(st, z3.And(ln >= 0, ln <= sl))
    self.assume(st, z3.ForAll([i], z3.Implies(z3.And(0 <= i, i < ln), z3.And(
        0 <= f(i), f(i) < sl, ei == z3.Select(sv.l_arr(src), f(i)), cond(ei))), patterns=[ei]))
    self.assume(st, z3.ForAll([i, j], z3.Implies(z3.And(0 <= i, i < j, j < ln), f(i) < f(j)), patterns=[z3.MultiPattern(f(i), f(j))]))
    sj = z3.Select(sv.l_arr(src), j)
    self.assume(st, z3.ForAll([j], z3.Implies(z3.And(0 <= j, j < sl, cond(sj)), z3.And(
        0 <= gi(j), gi(j) < ln, z3.Select(sv.l_arr(E), gi(j)) == sj)), patterns=[sj]))
    self.u.setdefault('_assumed', set()).add(
        '[x for x in L if c(x)]: the subsequence of L of the elements satisfying c (order kept, nothing dropped)')
    return E

  def e_SetComp(self, n, st, want=None):
    if len(n.generators) != 1:
      raise Unsupported('nested set comprehension')
    g = n.generators[0]
    c = self.ev(g.iter, st)
    if not (isinstance(n.elt, ast.Name) and isinstance(g.target, ast.Name) and n.elt.id == g.target.id):
      raise Unsupported('set comprehension with non-identity element')
    name = g.target.id
    if c.t.kind == 'list':
      c = set_of_list(c)
    if c.t.kind == 'dict':
      c = V(Ty('set', [c.t.args[0]]), sv.d_keys(c))
    if c.t.kind != 'set':
      raise Unsupported('set comprehension over %r' % (c.t,))
    x = z3.Const(sv.fresh_name(name), sv.zsort(c.t.args[0]))
    saved = self.bound.get(name)
    self.bound[name] = V(c.t.args[0], x)
    try:
      conds = [truthy(self.ev(c_, st)) for c_ in g.ifs]
    finally:
      if saved is None:
        self.bound.pop(name, None)
      else:
        self.bound[name] = saved
    return V(c.t, z3.Lambda([x], z3.And(z3.Select(c.z, x), *conds)))

  # ----- calls
  def e_Call(self, n, st, want=None):
    f = n.func
    # quantifiers
    if isinstance(f, ast.Name) and f.id in ('all', 'any') and len(n.args) == 1 and \
        isinstance(n.args[0], ast.GeneratorExp):
      return sv.mk_bool(self.quant(n.args[0], st, f.id == 'all'))
    if isinstance(f, ast.Name) and f.id == 'old' and self.spec:
      saved_env = None
      if self.old_env is None:
        raise Unsupported('old() outside postcondition')
      tmp = St()
      tmp.env = self.old_env
      tmp.pc = st.pc
      return self.ev(n.args[0], tmp)
    if isinstance(f, ast.Name) and f.id == 'at_loop_entry' and self.spec:
      # the value of an expression when the (innermost enclosing) loop was entered
      env_ = getattr(self, 'loop_entry_envs', None)
      if not env_:
        raise Unsupported('at_loop_entry() outside a loop invariant')
      tmp = St()
      tmp.env = env_[-1]
      tmp.pc = st.pc
      return self.ev(n.args[0], tmp)
    if isinstance(f, ast.Name) and f.id == 'implies' and self.spec:
      a = truthy(self.ev(n.args[0], st))
      self.guards.append(a)
      try:
        b = truthy(self.ev(n.args[1], st))
      finally:
        self.guards.pop()
      return sv.mk_bool(z3.Implies(a, b))
    if dotted_name(f) in ('copy.deepcopy', 'copy.copy') and len(n.args) == 1 and not n.keywords:
      # values of the encoding are immutable terms without identity: a copy is the same value, and
      # rebinding / updating the copy never affects the original (no aliasing in the encoding)
      return self.ev(n.args[0], st, want) if want is not None else self.ev(n.args[0], st)
    callee = self.ev(f, st)
    if not isinstance(callee, Callable_):
      raise Unsupported('call of non-callable at line %d' % n.lineno)
    if n.keywords and callee.kind not in ('method', 'unit', 'exc', 'builtin'):
      raise Unsupported('keyword arguments')
    if callee.kind == 'exc':
      return Callable_('excval', name=callee.name)
    if callee.kind == 'builtin':
      return self.call_builtin(callee.name, n, st, want)
    if callee.kind == 'method':
      return self.call_method(callee, n, st, want)
    if callee.kind == 'inline':
      return self.call_inline(callee.fdef, [self.ev(a, st) for a in n.args], st)
    if callee.kind == 'unit':
      return self.call_unit(callee.unit, n, st)
    if callee.kind == 'uf':
      argts, rett = self.u['ufs'][callee.name]
      args = [coerce(self.ev(a, st), self.ty(t)) for a, t in zip(n.args, argts)]
      f = uf('spec_' + callee.name, [sv.zsort(a.t) for a in args], sv.zsort(self.ty(rett)), self.ty(rett))
      # list arguments normalised outside [0, len): lists equal as Python values are equal terms
      return V(self.ty(rett), f(*[normalise_list(a).z for a in args]))
    if callee.kind == 'ctor':
      args = [self.ev(a, st) for a in n.args]
      saved = dict(self.bound)
      self.bound.update({'arg%d' % i: a for i, a in enumerate(args)})
      sp = self.spec
      self.spec = True
      try:
        fields = {k: self.ev(parse_expr(t), st) for k, t in self.u['constructors'][callee.name].items()}
      finally:
        self.bound = saved
        self.spec = sp
      return RecV(callee.name, fields)
    if callee.kind == 'specfn':
      params, text = self.u['spec_funcs'][callee.name]
      args = [self.ev(a, st) for a in n.args]
      saved = dict(self.bound)
      self.bound.update(dict(zip(params, args)))
      try:
        return self.ev(parse_expr(text), st)
      finally:
        self.bound = saved
    raise Unsupported('call kind %s' % callee.kind)

  def call_builtin(self, name, n, st, want):
    args = n.args
    if name == 'len':
      v = self.unwrap(self.ev(args[0], st), st, n, 'len() argument')
      if v.t.kind == 'str':
        return sv.mk_int(z3.Length(v.z))
      if v.t.kind == 'list':
        return sv.mk_int(0) if v.meta == 'empty' else sv.mk_int(sv.l_len(v))
      if v.t.kind == 'tuple':
        return sv.mk_int(len(v.t.args))
      if v.t.kind in ('set', 'dict'):
        card = uf('card_%s' % sv._mangle(v.t), [sv.zsort(v.t)], z3.IntSort())
        self.u.setdefault('_cards', {})[sv._mangle(v.t)] = v.t
        self.assume(st, card(v.z) >= 0)
        return sv.mk_int(card(v.z))
      raise Unsupported('len of %r' % (v.t,))
    if name == 'str':
      a0 = self.ev(args[0], st)
      if self.u.get('opaque_int_str') and isinstance(a0, V) and a0.t.kind == 'int':
        # str on integers as an uninterpreted function: whatever is proved holds for every function
        # from integers to strings, in particular for Python's decimal rendering
        return sv.mk_str(uf('opaque_int_str', [z3.IntSort()], z3.StringSort())(a0.z))
      return sv.mk_str(to_str(a0))
    if name == 'isinstance':
      v = self.ev(args[0], st)
      tn = args[1].id if isinstance(args[1], ast.Name) else None
      return sv.mk_bool(self.isinstance_(v, tn))
    if name == 'set':
      if not args:
        if want is not None and want.kind == 'set':
          return V(want, sv.empty_set_z(want))
        return V(Ty('set', [INT]), None, meta='empty')
      v = self.ev(args[0], st)
      if v.t.kind == 'set':
        return v
      if v.t.kind == 'list':
        if v.meta == 'empty':
          return V(Ty('set', [INT]), None, meta='empty')
        if self.u.get('set_axioms') and not self.spec:
          c = sv.fresh(Ty('set', [v.t.args[0]]), 'setof')
          xs = z3.Const(sv.fresh_name('sx'), sv.zsort(v.t.args[0]))
          i_ = z3.Int(sv.fresh_name('si'))
          pos = uf('pos_' + str(c.z), [sv.zsort(v.t.args[0])], z3.IntSort())
          el = z3.Select(sv.l_arr(v), i_)
          st.pc.append(z3.ForAll([i_], z3.Implies(z3.And(0 <= i_, i_ < sv.l_len(v)), z3.Select(c.z, el)), patterns=[el]))
          st.pc.append(z3.ForAll([xs], z3.Implies(z3.Select(c.z, xs), z3.And(
              0 <= pos(xs), pos(xs) < sv.l_len(v), z3.Select(sv.l_arr(v), pos(xs)) == xs)), patterns=[z3.Select(c.z, xs)]))
          return c
        return set_of_list(v)
      if v.t.kind == 'dict':
        return V(Ty('set', [v.t.args[0]]), sv.d_keys(v))
      raise Unsupported('set(%r)' % (v.t,))
    if name == 'list' and args and isinstance(args[0], ast.Call) and \
        isinstance(args[0].func, ast.Name) and args[0].func.id == 'map' and len(args[0].args) == 2:
      fn = self.ev(args[0].args[0], st)
      xs = self.ev(args[0].args[1], st)
      if not (isinstance(fn, Callable_) and fn.kind == 'unit' and fn.unit.get('pure')) or xs.t.kind != 'list':
        raise Unsupported('map() with a non-pure function or non-list')
      k = z3.Int(sv.fresh_name('mapk'))
      saved = self.bound.get('__map_elem')
      self.bound['__map_elem'] = V(xs.t.args[0], z3.Select(sv.l_arr(xs), k))
      try:
        call = ast.Call(func=args[0].args[0], args=[ast.Name(id='__map_elem', lineno=n.lineno)], keywords=[],
                        lineno=n.lineno)
        self.guards.append(z3.And(0 <= k, k < sv.l_len(xs)))
        try:
          e = self.call_unit(fn.unit, call, st)
        finally:
          self.guards.pop()
      finally:
        if saved is None:
          self.bound.pop('__map_elem', None)
        else:
          self.bound['__map_elem'] = saved
      # the mapped list is a fresh array with its defining axiom (friendlier to e-matching than
      # a lambda when the list is later used under quantifiers)
      lt = Ty('list', [e.t])
      arr = z3.Const(sv.fresh_name('maparr'), z3.ArraySort(z3.IntSort(), sv.zsort(e.t)))
      self.assume(st, z3.ForAll([k], z3.Implies(z3.And(0 <= k, k < sv.l_len(xs)),
                                               z3.Select(arr, k) == e.z),
                                patterns=[z3.Select(arr, k), e.z]))
      return sv.mk_list(lt, arr, sv.l_len(xs))
    if name == 'map' and len(args) == 2 and isinstance(args[0], ast.Name) and args[0].id == 'str':
      # map(str, xs), consumed once by join / list: the list [str(x) for x in xs]
      comp = ast.ListComp(elt=ast.Call(func=ast.Name(id='str', ctx=ast.Load()), args=[ast.Name(id='m__x', ctx=ast.Load())],
                                       keywords=[]),
                          generators=[ast.comprehension(target=ast.Name(id='m__x', ctx=ast.Store()), iter=args[1],
                                                        ifs=[], is_async=0)])
      ast.copy_location(comp, n)
      ast.fix_missing_locations(comp)
      return self.ev(comp, st)
    if name == 'list':
      if not args:
        return V(Ty('list', [INT]), None, meta='empty')
      v = self.ev(args[0], st)
      if v.t.kind == 'list':
        return v
      raise Unsupported('list(%r)' % (v.t,))
    if name in ('min', 'max') and len(args) == 2:
      a, b = self.ev(args[0], st), self.ev(args[1], st)
      if a.t.kind == 'int' and b.t.kind == 'int':
        c = (a.z <= b.z) if name == 'min' else (a.z >= b.z)
        return sv.mk_int(z3.If(c, a.z, b.z))
    if name == 'abs':
      a = self.ev(args[0], st)
      return sv.mk_int(z3.If(a.z < 0, -a.z, a.z))
    if name == 'text_of' and self.spec:
      if isinstance(args[0], ast.Name) and args[0].id == 'self' and 'self' not in self.bound:
        return self.e_Attribute(ast.Attribute(value=ast.Name(id='self'), attr=self.u['self_str'],
                                              lineno=0), st)
      a = self.ev(args[0], st)
      if isinstance(a, RecV):
        return a.fields['text']
      return a
    if name in ('intval', 'strval') and self.spec:
      a = self.ev(args[0], st)
      if a.t.kind == 'opt':
        a = sv.opt_val(a)
      if a.t.kind == 'val':
        vs = sv.val_sort()
        return sv.mk_int(vs.vint(a.z)) if name == 'intval' else sv.mk_str(vs.vstr(a.z))
      return a
    if name == 'isspace' and self.spec:
      a = self.ev(args[0], st)
      return sv.mk_bool(isspace_uf()(a.z))
    if name == 'sorted':
      a0 = args[0]
      if isinstance(a0, ast.Call) and isinstance(a0.func, ast.Attribute) and a0.func.attr == 'items' and not a0.args:
        d = self.ev(a0.func.value, st)
        if isinstance(d, V) and d.t.kind == 'dict':
          return self.sorted_items(d, st)
      v = self.ev(args[0], st)
      return self.sorted_(v, st)
    if name == 'print':
      return sv.mk_none()
    raise Unsupported('builtin %s/%d' % (name, len(args)))

  def sorted_items(self, d, st):
    """sorted(d.items()): a fresh list of (key, value) pairs: every pair is an entry of d, every key of d occurs (at
    position at(k)), no key twice.  (The order itself is not used by the contracts.)"""
    kt, vt = d.t.args
    tt = Ty('tuple', [kt, vt])
    r = sv.fresh(Ty('list', [tt]), 'items')
    i, j = z3.Int(sv.fresh_name('ii')), z3.Int(sv.fresh_name('ij'))
    arr, ln = sv.l_arr(r), sv.l_len(r)
    el = V(tt, z3.Select(arr, i))
    k_i, v_i = sv.tuple_get(el, 0), sv.tuple_get(el, 1)
    self.assume(st, ln >= 0)
    self.assume(st, z3.ForAll([i], z3.Implies(z3.And(0 <= i, i < ln), z3.And(
        z3.Select(sv.d_keys(d), k_i.z), v_i.z == z3.Select(sv.d_vals(d), k_i.z))), patterns=[z3.Select(arr, i)]))
    at = uf('at_' + str(r.z), [sv.zsort(kt)], z3.IntSort())
    x = z3.Const(sv.fresh_name('ik'), sv.zsort(kt))
    self.assume(st, z3.ForAll([x], z3.Implies(z3.Select(sv.d_keys(d), x), z3.And(
        0 <= at(x), at(x) < ln, sv.tuple_get(V(tt, z3.Select(arr, at(x))), 0).z == x)),
        patterns=[z3.Select(sv.d_keys(d), x)]))
    el_j = V(tt, z3.Select(arr, j))
    self.assume(st, z3.ForAll([i, j], z3.Implies(z3.And(0 <= i, i < j, j < ln),
                                                  k_i.z != sv.tuple_get(el_j, 0).z)))
    self.u.setdefault('_assumed', set()).add('sorted(d.items()): lists exactly the entries of d, each key once')
    return r

  def sorted_(self, v, st):
    """sorted(S) for a set / list: a fresh list with the assumed contract of sorted()."""
    if v.t.kind == 'set':
      et = v.t.args[0]
      r = sv.fresh(Ty('list', [et]), 'sorted')
      i, j = z3.Ints('i!srt j!srt')
      x = z3.Const('x!srt', sv.zsort(et))
      arr, ln = sv.l_arr(r), sv.l_len(r)
      self.assume(st, ln >= 0)
      self.assume(st, z3.ForAll([i], z3.Implies(z3.And(0 <= i, i < ln), z3.Select(v.z, z3.Select(arr, i)))))
      idx = uf('idx_' + str(r.z), [sv.zsort(et)], z3.IntSort())
      self.assume(st, z3.ForAll([x], z3.Implies(z3.Select(v.z, x), z3.And(
          0 <= idx(x), idx(x) < ln, z3.Select(arr, idx(x)) == x))))
      self.assume(st, z3.ForAll([i, j], z3.Implies(z3.And(0 <= i, i < j, j < ln),
                                                    z3.Select(arr, i) != z3.Select(arr, j))))
      if et.kind in ('int',):
        self.assume(st, z3.ForAll([i, j], z3.Implies(z3.And(0 <= i, i < j, j < ln),
                                                      z3.Select(arr, i) < z3.Select(arr, j))))
      elif et.kind == 'U':
        lt = uf('lt_%s' % et.args[0], [sv.zsort(et)] * 2, z3.BoolSort())
        self.u.setdefault('_orders', set()).add(et.args[0])
        self.assume(st, z3.ForAll([i, j], z3.Implies(z3.And(0 <= i, i < j, j < ln),
                                                      lt(z3.Select(arr, i), z3.Select(arr, j)))))
      self.u.setdefault('_assumed', set()).add(
          'sorted(set): result lists exactly the members, each once, ascending')
      return r
    if v.t.kind == 'list' and v.meta != 'empty':
      # sorted(list) as an uninterpreted function of the list value (same length); a TypeError of
      # incomparable elements is not modelled
      nv = normalise_list(v)
      f = uf('sorted_%s' % sv._mangle(v.t), [sv.zsort(v.t)], sv.zsort(v.t), v.t)
      r = V(v.t, f(nv.z))
      self.assume(st, sv.l_len(r) == sv.l_len(nv))
      # every element of the sorted list is an element of the argument (position perm(i)) and vice versa
      pi = uf('perm_%s' % sv._mangle(v.t), [sv.zsort(v.t), z3.IntSort()], z3.IntSort())
      qi = uf('perminv_%s' % sv._mangle(v.t), [sv.zsort(v.t), z3.IntSort()], z3.IntSort())
      i_ = z3.Int(sv.fresh_name('pi'))
      ri, vi = z3.Select(sv.l_arr(r), i_), z3.Select(sv.l_arr(v), i_)
      self.assume(st, z3.ForAll([i_], z3.Implies(z3.And(0 <= i_, i_ < sv.l_len(r)), z3.And(
          0 <= pi(nv.z, i_), pi(nv.z, i_) < sv.l_len(v), ri == z3.Select(sv.l_arr(v), pi(nv.z, i_)))), patterns=[ri]))
      self.assume(st, z3.ForAll([i_], z3.Implies(z3.And(0 <= i_, i_ < sv.l_len(v)), z3.And(
          0 <= qi(nv.z, i_), qi(nv.z, i_) < sv.l_len(r), vi == z3.Select(sv.l_arr(r), qi(nv.z, i_)))), patterns=[vi]))
      self.u.setdefault('_assumed', set()).add(
          'sorted(list): an uninterpreted function of the list value with the same length and the same elements; TypeError not modelled')
      return r
    raise Unsupported('sorted(%r)' % (v.t,))

  def isinstance_(self, v, tn):
    k = v.t.kind
    if k == 'val':
      s = sv.val_sort()
      if tn == 'int':
        return z3.Or(s.is_VInt(v.z), s.is_VBool(v.z))
      if tn == 'str':
        return s.is_VStr(v.z)
      if tn == 'bool':
        return s.is_VBool(v.z)
      raise Unsupported('isinstance val %s' % tn)
    if k == 'opt':
      return z3.And(z3.Not(sv.opt_is_none(v)), self.isinstance_(sv.opt_val(v), tn))
    m = {'int': ('int', 'bool'), 'str': ('str',), 'bool': ('bool',), 'list': ('list',),
         'dict': ('dict',), 'set': ('set',), 'tuple': ('tuple',)}
    if tn in m:
      return z3.BoolVal(k in m[tn])
    raise Unsupported('isinstance %s' % tn)

  def call_method(self, callee, n, st, want):
    base, name = callee.base, callee.name
    if isinstance(base, Callable_):
      raise Unsupported('method on callable')
    args = [self.ev(a, st) for a in n.args]
    k = base.t.kind
    if k == 'str':
      if name == 'isspace':
        return sv.mk_bool(isspace_uf()(base.z))
      if name == 'replace':
        return sv.mk_str(replace_all(base.z, args[0].z, args[1].z))
      if name == 'startswith':
        return sv.mk_bool(z3.PrefixOf(args[0].z, base.z))
      if name == 'endswith':
        return sv.mk_bool(z3.SuffixOf(args[0].z, base.z))
      if name == 'join':
        if args[0].t.kind != 'list' or args[0].t.args[0].kind != 'str':
          raise Unsupported('join of %r' % (args[0].t,))
        return sv.mk_str(join_of(base.z, args[0]))
      if name == 'format':
        if not isinstance(callee.node, ast.Constant):
          raise Unsupported('format on non-constant template')
        kw = {k_.arg: self.unwrap(self.ev(k_.value, st), st, n, 'format argument') for k_ in n.keywords}
        args = [self.unwrap(a, st, n, 'format argument') for a in args]
        return self.format_braces(callee.node.value, args, kw)
    if k == 'dict':
      if name == 'get':
        key = coerce(args[0], base.t.args[0])
        has = z3.Select(sv.d_keys(base), key.z)
        val = V(base.t.args[1], z3.Select(sv.d_vals(base), key.z))
        if len(args) == 1 or args[1].t.kind == 'none':
          t = Ty('opt', [base.t.args[1]]) if base.t.args[1].kind != 'opt' else base.t.args[1]
          sm = coerce(val, t)
          return V(t, z3.If(has, sm.z, sv.opt_none(t).z))
        d = coerce(args[1], base.t.args[1])
        return V(val.t, z3.If(has, val.z, d.z))
      if name == 'keys':
        return V(Ty('set', [base.t.args[0]]), sv.d_keys(base))
      if name == 'values' and not args:
        # the values of a dict, as far as membership / quantification goes: the set of v with some key k -> v
        kk = z3.Const(sv.fresh_name('vk'), sv.zsort(base.t.args[0]))
        xv = z3.Const(sv.fresh_name('vv'), sv.zsort(base.t.args[1]))
        return V(Ty('set', [base.t.args[1]]),
                 z3.Lambda([xv], z3.Exists([kk], z3.And(z3.Select(sv.d_keys(base), kk),
                                                         z3.Select(sv.d_vals(base), kk) == xv))))
    raise Unsupported('method %s on %r' % (name, base.t))

  def call_inline(self, fdef, args, st):
    """Inlines a small nested function: executes its body and merges the returned values."""
    sub = st.copy()
    sub.pc = []
    params = [a.arg for a in fdef.args.args]
    if len(params) != len(args):
      raise Unsupported('inline arity')
    saved = {}
    for p, a in zip(params, args):
      sub.env[p] = a
    eng_exits = []
    outs = self.block(fdef.body, sub)
    res = None
    for s2, oc, val in outs:
      if oc == NORMAL:
        oc, val = RETURN, sv.mk_none()
      if oc != RETURN:
        raise Unsupported('inline function with outcome %s' % oc)
      for k_, v_ in s2.env.items():
        if k_ not in params and k_ in st.env and st.env[k_] is not v_:
          raise Unsupported('inline function writes outer variable %s' % k_)
      cond = z3.And(*s2.pc) if s2.pc else z3.BoolVal(True)
      if res is None:
        res = val
      else:
        if res.t != val.t:
          t = unify_types(res.t, val.t)
          res, val = coerce(res, t), coerce(val, t)
        res = V(val.t, z3.If(cond, val.z, res.z))
    return res

  def call_unit(self, cu, n, st):
    """Call of a unit under contract: assert pre, havoc modifies, assume post (or pure UF)."""
    params = cu['params']
    args = [self.ev(a, st) for a in n.args]
    if len(args) != len(params) or n.keywords:
      raise Unsupported('call of %s with %d args' % (cu['name'], len(args)))
    sub = Engine(cu, self.reg)
    sub.consts = cu.get('consts', {})
    sub.depth = getattr(self, 'depth', 0) + 1
    cst = St()
    cst.pc = st.pc
    for p, a in zip(params, args):
      t = sub.declared(p)
      if t is not None and isinstance(a, V) and a.t.kind == 'opt' and t.kind != 'opt':
        a = self.unwrap(a, st, n, 'argument %s' % p)     # obligation: the optional is not None here
      cst.env[p] = coerce(a, t) if t is not None else a
    for key in cu.get('fields', {}):
      if key in st.env:
        cst.env[key] = st.env[key]
      else:
        t = self.declared(key) or sub.declared(key)
        st.env[key] = sv.const(t, key)
        cst.env[key] = st.env[key]
    sub.spec = True
    sub.guards = list(self.guards)
    for i, r in enumerate(cu.get('requires', [])):
      g = truthy(sub.ev(parse_expr(r), cst))
      self.emit(st, 'call-pre', g, n, '%s requires %s' % (cu['name'], r), tag='[%s#%d]' % (cu['name'], i))
    if cu.get('axioms_at_call'):
      # the callee's axioms characterise total spec functions of explicit state arguments (no nullary
      # symbols), so their instance at the call-time state is as valid as at the callee's entry
      for ax in cu.get('axioms', []):
        self.assume(st, guard_all(self.guards, truthy(sub.ev(parse_expr(ax), cst))))
    rt = sub.ty(cu['returns']) if cu.get('returns') else None
    if cu.get('pure'):
      reads = [cst.env[k] for k in sorted(cu.get('fields', {}))]
      ins = [cst.env[p] for p in params] + reads
      if rt is None:
        raise Unsupported('pure unit without return type')
      f = uf('pure_' + cu['name'], [sv.zsort(v.t) for v in ins], sv.zsort(rt), rt)
      # list arguments are normalised outside [0, len) so that two lists equal as Python values
      # are equal as terms and the function symbol is congruent on them
      res = V(rt, f(*[normalise_list(v).z for v in ins]))
      post_st = cst
    else:
      post_st = cst.copy()
      for key in cu.get('modifies', []):
        t = sub.declared(key)
        post_st.env[key] = sv.fresh(t, key)
      # a callee that mutates an argument object in place (e.g. heapq on a list): the argument is
      # havocked and constrained by the callee's postcondition, then written back to the caller's lvalue
      for p_ in cu.get('modifies_args', []):
        post_st.env[p_] = sv.fresh(sub.declared(p_), p_)
      res = sv.fresh(rt, 'ret_' + cu['name']) if rt is not None else sv.mk_none()
    sub.old_env = dict(cst.env)
    sub.bound = {'result': res}
    # ghost fields of the callee: their new value is given by definition over the callee's pre / post state
    if not cu.get('pure'):
      for gf, gspec in cu.get('ghost_defs', {}).items():
        post_st.env[gf] = self.ghost_value(sub, gf, gspec, post_st, dict(cst.env))
    sub.assuming = True
    # call_skip_ensures: clauses proved for the callee but not handed to callers (an equivalent clause in
    # a solver-friendlier form is)
    skip = set(cu.get('smt_skip_ensures', [])) | set(cu.get('call_skip_ensures', []))
    # postconditions of a callee are assumed at the call site only; calls made *inside* those
    # postconditions are bare applications (no unbounded unfolding of mutually recursive contracts)
    # a pure callee applied inside a *specification* (invariant, postcondition) is a bare application: its contract
    # is available as a quantified axiom of the unit if needed (an instance for a bound variable would be a
    # free-variable formula of no use)
    assume_post = getattr(self, 'depth', 0) < 1 and not (cu.get('pure') and self.spec)
    for i_, r in enumerate(cu.get('ensures', []) if assume_post else []):
      if i_ in skip:
        continue
      self.assume(st, guard_all(self.guards, truthy(sub.ev(parse_expr(r), post_st))))
    sub.assuming = False
    # a call that may raise: the normal continuation assumes the raise conditions are false
    for exc, cond in ({} if self.spec else cu.get('raises', {})).items():
      sub.old_env = None
      c = truthy(sub.ev(parse_expr(cond), cst))
      if self.guards:
        c = z3.And(*(list(self.guards) + [c]))
      st.ghost.setdefault('may_raise', []).append((exc, c, n))
    if not cu.get('pure'):
      for key in cu.get('modifies', []):
        st.env[key] = post_st.env[key]
      for p_ in cu.get('modifies_args', []):
        self.assign(n.args[params.index(p_)], post_st.env[p_], st)
    return res

  # ---------------------------------------------------------------- ghost state
  def ghost_value(self, eng, field, spec, st, old_env):
    """Value of a ghost field given by definition: `field := lambda var: expr` (ghost assignment at the
    unit's exit).  A functional definition is satisfiable for every state, so it assumes nothing."""
    var, vt, text = spec
    t = eng.declared(field)
    vt = eng.ty(vt)
    bv = z3.Const(sv.fresh_name('g_' + var), sv.zsort(vt))
    sub_spec, sub_old, sub_bound = eng.spec, eng.old_env, dict(eng.bound)
    eng.spec, eng.old_env = True, old_env
    eng.bound[var] = V(vt, bv)
    saved_obls = len(eng.obls)
    try:
      body = eng.ev(parse_expr(text), st)
    finally:
      eng.spec, eng.old_env, eng.bound = sub_spec, sub_old, sub_bound
    del eng.obls[saved_obls:]
    if t.kind == 'set':
      return V(t, z3.Lambda([bv], truthy(body)))
    if t.kind == 'dict':
      body = coerce(body, t.args[1])
      return sv.mk_dict(t, z3.K(sv.zsort(vt), z3.BoolVal(True)), z3.Lambda([bv], body.z))
    raise Unsupported('ghost field of type %r' % (t,))

  # ---------------------------------------------------------------- statements
  def block(self, stmts, st):
    """Executes statements; returns list of (state, outcome, value)."""
    states = [st]
    results = []
    for s in stmts:
      nxt = []
      for cur in states:
        for s2, oc, val in self.stmt(s, cur):
          if oc == NORMAL:
            nxt.append(s2)
          else:
            results.append((s2, oc, val))
      states = nxt
      if not states:
        break
    results.extend((s_, NORMAL, None) for s_ in states)
    return results

  def stmt(self, s, st):
    m = getattr(self, 's_' + type(s).__name__, None)
    if m is None:
      raise Unsupported('statement %s at line %d' % (type(s).__name__, s.lineno))
    # calls evaluated inside the statement may raise (contract `raises`): fork those paths
    st.ghost['may_raise'] = []
    out = m(s, st)
    return out

  def with_raises(self, st, outs):
    """Splits off the exceptional continuations of contracted calls made while evaluating."""
    mr = st.ghost.get('may_raise') or []
    if not mr:
      return outs
    res = []
    neg = []
    for exc, c, n in mr:
      r = st.copy()
      r.pc = r.pc + neg + [c]
      res.append((r, RAISE, Callable_('excval', name=exc)))
      neg.append(z3.Not(c))
    for s2, oc, val in outs:
      s2.pc = s2.pc + neg
      res.append((s2, oc, val))
    st.ghost['may_raise'] = []
    return res

  def s_Pass(self, s, st):
    return [(st, NORMAL, None)]

  def s_Expr(self, s, st):
    if isinstance(s.value, ast.Constant):
      return [(st, NORMAL, None)]
    from . import extract
    if extract.is_call_to(s, set(self.u.get('drop_calls', ())) | {'print'}):
      self.u.setdefault('_dropped', []).append('L%d: %s' % (s.lineno, ast.unparse(s)[:60]))
      return [(st, NORMAL, None)]
    if isinstance(s.value, (ast.Yield,)):
      v = self.ev(s.value.value, st) if s.value.value is not None else sv.mk_none()
      ys = st.env.get('__yields')
      if ys is None:
        raise Unsupported('yield without declared __yields type')
      st.env['__yields'] = list_append(ys, coerce(v, ys.t.args[0]))
      return [(st, NORMAL, None)]
    if isinstance(s.value, ast.Call):
      c = s.value
      # mutating method calls on an lvalue
      if isinstance(c.func, ast.Attribute) and c.func.attr in MUTATORS:
        try:
          tgt = self.ev(c.func.value, st)
        except Unsupported:
          tgt = None
        if isinstance(tgt, V) and tgt.t.kind in ('list', 'set', 'dict'):
          return self.with_raises(st, self.mutate(c, tgt, st))
      self.ev(c, st)
      return self.with_raises(st, [(st, NORMAL, None)])
    self.ev(s.value, st)
    return self.with_raises(st, [(st, NORMAL, None)])

  def mutate(self, c, tgt, st):
    name = c.func.attr
    args = [self.ev(a, st) for a in c.args]
    k = tgt.t.kind
    if tgt.meta == 'empty':
      t = self.lvalue_type(c.func.value)
      if t is None:
        raise Unsupported('mutation of untyped empty container at line %d' % c.lineno)
      tgt = coerce(tgt, t)
    if k == 'list' and name == 'append':
      new = list_append(tgt, coerce(args[0], tgt.t.args[0]))
    elif k == 'list' and name == 'extend':
      new = list_concat(tgt, coerce(args[0], tgt.t))
    elif k == 'list' and name == 'insert' and len(args) == 2:
      # xs.insert(i, e) == xs[i:i] = [e]  (the index is clamped like a slice bound)
      lo_, _hi = clamp_slice(sv.l_len(tgt), args[0].z, None)
      one = sv.list_from_elems(tgt.t, [coerce(args[1], tgt.t.args[0])])
      new = list_insert_slice(tgt, lo_, one)
    elif k == 'list' and name == 'pop' and not args:
      self.emit(st, 'safe-pop', sv.l_len(tgt) > 0, c, 'pop from non-empty list')
      new = sv.mk_list(tgt.t, sv.l_arr(tgt), sv.l_len(tgt) - 1)
    elif k == 'dict' and name == 'update' and (
        (len(args) == 1 and not c.keywords) or (not args and len(c.keywords) == 1 and c.keywords[0].arg is None)):
      # d.update(other) / d.update(**other): entries of `other` override, everything else stays
      other = args[0] if args else self.ev(c.keywords[0].value, st)
      if other.meta == 'empty':
        new = tgt
      else:
        other = coerce(other, tgt.t) if other.t != tgt.t else other
        kk = z3.Const(sv.fresh_name('uk'), sv.zsort(tgt.t.args[0]))
        ok = z3.Select(sv.d_keys(other), kk)
        new = sv.mk_dict(tgt.t, z3.Lambda([kk], z3.Or(z3.Select(sv.d_keys(tgt), kk), ok)),
                         z3.Lambda([kk], z3.If(ok, z3.Select(sv.d_vals(other), kk), z3.Select(sv.d_vals(tgt), kk))))
    elif k == 'set' and name == 'add':
      new = V(tgt.t, z3.Store(tgt.z, coerce(args[0], tgt.t.args[0]).z, True))
    elif k == 'set' and name == 'update' and len(args) == 1 and not c.keywords and \
        isinstance(args[0], V) and args[0].t.kind in ('set', 'list'):
      other = args[0] if args[0].t.kind == 'set' else set_of_list(args[0])
      new = tgt if other.meta == 'empty' else self.binop(ast.BitOr(), tgt, other, st, c)
    elif k == 'set' and name in ('remove', 'discard') and len(args) == 1:
      e_ = coerce(args[0], tgt.t.args[0])
      if name == 'remove':
        self.emit(st, 'safe-key', z3.Select(tgt.z, e_.z), c, 'set.remove of a member (KeyError otherwise)')
      new = V(tgt.t, z3.Store(tgt.z, e_.z, False))
    else:
      raise Unsupported('mutator %s on %r' % (name, tgt.t))
    self.assign(c.func.value, new, st)
    return [(st, NORMAL, None)]

  def lvalue_type(self, node):
    if isinstance(node, ast.Name):
      return self.declared(node.id)
    if isinstance(node, ast.Attribute) and (dotted_name(node) or '').startswith('self.'):
      return self.declared(dotted_name(node))
    return None

  def assign(self, target, val, st):
    if isinstance(target, ast.Name):
      t = self.declared(target.id)
      if t is None and target.id in st.env and isinstance(st.env[target.id], V) and \
          isinstance(val, V) and st.env[target.id].t != val.t and st.env[target.id].meta != 'empty':
        t = st.env[target.id].t
      if t is not None and isinstance(val, V):
        try:
          val = coerce(val, t)
        except Unsupported:
          if self.declared(target.id) is not None and not (
              val.t.kind in ('list', 'set', 'dict') and t.kind in ('list', 'set', 'dict') and val.t.kind != t.kind):
            raise
          # undeclared local re-bound to a value of another type: paths are never merged, so the
          # name simply takes the new type on this path
      st.env[target.id] = val
      return
    if isinstance(target, ast.Attribute) and (dotted_name(target) or '').startswith('self.'):
      key = dotted_name(target)
      t = self.declared(key)
      if t is None:
        raise Unsupported('assignment to undeclared field %s' % key)
      st.env[key] = coerce(val, t)
      return
    if isinstance(target, ast.Attribute) and isinstance(target.value, ast.Name) and \
        isinstance(st.env.get(target.value.id), RecV):
      r = st.env[target.value.id]
      if target.attr not in r.fields:
        raise Unsupported('new field %s on %s' % (target.attr, r.cls))
      nf = dict(r.fields)
      nf[target.attr] = coerce(val, r.fields[target.attr].t)
      st.env[target.value.id] = RecV(r.cls, nf)
      return
    if isinstance(target, ast.Tuple):
      if val.t.kind != 'tuple' or len(val.t.args) != len(target.elts):
        raise Unsupported('tuple unpack')
      for i, e in enumerate(target.elts):
        self.assign(e, sv.tuple_get(val, i), st)
      return
    if isinstance(target, ast.Subscript):
      base = self.ev(target.value, st)
      sl = target.slice
      if base.t.kind == 'dict' or (base.meta == 'empty'):
        if base.meta == 'empty':
          t = self.lvalue_type(target.value)
          if t is None:
            raise Unsupported('item assignment on untyped empty dict')
          base = coerce(base, t)
        key = coerce(self.ev(sl, st), base.t.args[0])
        new = sv.mk_dict(base.t, z3.Store(sv.d_keys(base), key.z, True),
                         z3.Store(sv.d_vals(base), key.z, coerce(val, base.t.args[1]).z))
        self.assign(target.value, new, st)
        return
      if base.t.kind == 'list':
        if isinstance(sl, ast.Slice):
          a = self.ev(sl.lower, st).z if sl.lower is not None else None
          b = self.ev(sl.upper, st).z if sl.upper is not None else None
          lo, hi = clamp_slice(sv.l_len(base), a, b)
          if not (sl.lower is not None and sl.upper is not None and
                  ast.dump(sl.lower) == ast.dump(sl.upper)):
            raise Unsupported('slice assignment other than l[i:i] = ...')
          new = list_insert_slice(base, lo, coerce(val, base.t))
          self.assign(target.value, new, st)
          return
        idx = self.ev(sl, st)
        ln = sv.l_len(base)
        self.emit(st, 'safe-index', z3.And(-ln <= idx.z, idx.z < ln), target, 'list index in range')
        j = z3.If(idx.z < 0, idx.z + ln, idx.z)
        new = sv.mk_list(base.t, z3.Store(sv.l_arr(base), j, coerce(val, base.t.args[0]).z), ln)
        self.assign(target.value, new, st)
        return
    raise Unsupported('assignment target %s at line %d' % (type(target).__name__, target.lineno))

  def s_Assign(self, s, st):
    if len(s.targets) != 1:
      raise Unsupported('chained assignment')
    tgt = s.targets[0]
    want = self.lvalue_type(tgt)
    val = self.ev(s.value, st, want)
    if isinstance(val, Callable_):
      raise Unsupported('assignment of callable at line %d' % s.lineno)
    self.assign(tgt, val, st)
    return self.with_raises(st, [(st, NORMAL, None)])

  def s_AnnAssign(self, s, st):
    if s.value is None:
      return [(st, NORMAL, None)]
    val = self.ev(s.value, st, self.lvalue_type(s.target))
    self.assign(s.target, val, st)
    return self.with_raises(st, [(st, NORMAL, None)])

  def s_AugAssign(self, s, st):
    cur = self.ev(s.target, st)
    want = cur.t if cur.meta != 'empty' else self.lvalue_type(s.target)
    if cur.meta == 'empty' and want is not None:
      cur = coerce(cur, want)
    rhs = self.ev(s.value, st, want if cur.t.kind in ('list', 'set') else None)
    if isinstance(s.op, ast.BitOr) and cur.t.kind == 'set' and rhs.meta == 'empty':
      new = cur
    else:
      new = self.binop(s.op, cur, rhs, st, s)
    self.assign(s.target, new, st)
    return self.with_raises(st, [(st, NORMAL, None)])

  def s_Delete(self, s, st):
    for t in s.targets:
      if isinstance(t, ast.Subscript):
        base = self.ev(t.value, st)
        if base.t.kind == 'list' and not isinstance(t.slice, ast.Slice):
          idx = self.ev(t.slice, st)
          ln = sv.l_len(base)
          self.emit(st, 'safe-index', z3.And(0 <= idx.z, idx.z < ln), t, 'del index in range')
          self.assign(t.value, list_delete(base, idx.z), st)
          continue
        if base.t.kind == 'dict' and not isinstance(t.slice, ast.Slice):
          # del d[k]: KeyError unless k in d; afterwards k is absent, every other entry is unchanged and
          # the number of entries is one less (instance of the cardinality law at this key)
          key = coerce(self.ev(t.slice, st), base.t.args[0])
          self.emit(st, 'safe-key', z3.Select(sv.d_keys(base), key.z), t, 'del key present')
          new = sv.mk_dict(base.t, z3.Store(sv.d_keys(base), key.z, z3.BoolVal(False)), sv.d_vals(base))
          card = uf('card_%s' % sv._mangle(base.t), [sv.zsort(base.t)], z3.IntSort())
          self.assume(st, card(new.z) == card(base.z) - 1)
          self.assume(st, card(new.z) >= 0)
          self.assign(t.value, new, st)
          continue
      raise Unsupported('del target at line %d' % s.lineno)
    return [(st, NORMAL, None)]

  def s_Return(self, s, st):
    rt_ = self.ret_type()
    val = self.ev(s.value, st, rt_ if rt_ is None or rt_.kind != 'rec' else None) \
        if s.value is not None else sv.mk_none()
    return self.with_raises(st, [(st, RETURN, val)])

  def ret_type(self):
    return self.ty(self.u['returns']) if self.u.get('returns') else None

  def s_Raise(self, s, st):
    name = 'Exception'
    if s.exc is not None:
      e = s.exc
      f = e.func if isinstance(e, ast.Call) else e
      dn = dotted_name(f)
      name = dn.split('.')[-1] if dn else 'Exception'
    return [(st, RAISE, Callable_('excval', name=name))]

  def s_Assert(self, s, st):
    c = truthy(self.ev(s.test, st))
    if self.u.get('asserts') == 'diagnostic':
      a, b = st, st.copy()
      a.pc.append(c)
      b.pc.append(z3.Not(c))
      return [(a, NORMAL, None), (b, RAISE, Callable_('excval', name='AssertionError'))]
    self.emit(st, 'assert', c, s, 'assert ' + ast.unparse(s.test)[:80], tag='@L%d' % (s.lineno - self.base_line))
    st.pc.append(c)
    return [(st, NORMAL, None)]

  def s_FunctionDef(self, s, st):
    self.inlines[s.name] = s
    return [(st, NORMAL, None)]

  def s_Global(self, s, st):
    return [(st, NORMAL, None)]

  def s_If(self, s, st):
    c = truthy(self.ev(s.test, st))
    pre = self.with_raises(st, [(st, NORMAL, None)])
    out = []
    for s0, oc, val in pre:
      if oc != NORMAL:
        out.append((s0, oc, val))
        continue
      c_s = z3.simplify(c)
      if z3.is_true(c_s):
        out.extend(self.block(s.body, s0))
        continue
      if z3.is_false(c_s):
        out.extend(self.block(s.orelse, s0))
        continue
      a, b = s0, s0.copy()
      a.pc.append(c)
      b.pc.append(z3.Not(c))
      out.extend(self.block(s.body, a))
      out.extend(self.block(s.orelse, b))
    return out

  # ----- loops
  def written_names(self, stmts):
    names = set()
    for s in stmts:
      for n in ast.walk(s):
        if isinstance(n, (ast.Assign, ast.AugAssign, ast.AnnAssign)):
          tgts = n.targets if isinstance(n, ast.Assign) else [n.target]
          for t in tgts:
            for x in ast.walk(t):
              r = root_name(x)
              if r:
                names.add(r)
                break
        elif isinstance(n, ast.For):
          for x in ast.walk(n.target):
            if isinstance(x, ast.Name):
              names.add(x.id)
        elif isinstance(n, ast.Delete):
          for t in n.targets:
            r = root_name(t)
            if r:
              names.add(r)
        elif isinstance(n, ast.Call) and isinstance(n.func, ast.Attribute):
          if n.func.attr in MUTATORS:
            r = root_name(n.func.value)
            if r:
              names.add(r)
          dn_ = dotted_name(n.func)
          if dn_ and dn_ in self.u.get('calls', {}):
            cu_ = self.reg[self.u['calls'][dn_]]
            names.update(cu_.get('modifies', []))
            for p_ in cu_.get('modifies_args', []):
              r = root_name(n.args[cu_['params'].index(p_)])
              if r:
                names.add(r)
          # calls of contracted methods: their modifies
          if isinstance(n.func.value, ast.Name) and n.func.value.id == 'self':
            cls = self.u.get('cls')
            full = (cls + '.' + n.func.attr) if cls else n.func.attr
            if full in self.reg:
              names.update(self.reg[full].get('modifies', []))
        elif isinstance(n, (ast.Yield,)):
          names.add('__yields')
        elif isinstance(n, ast.NamedExpr):
          names.add(n.target.id)
    return names

  def loop_spec(self, node=None):
    # loops are numbered by source order inside the unit (a loop reached on two paths is one loop)
    key = (getattr(node, 'lineno', None), getattr(node, 'col_offset', None))
    ids = self.__dict__.setdefault('loop_ids', {})
    if key not in ids:
      ids[key] = self.loop_counter
      self.loop_counter += 1
    i = ids[key]
    loops = self.u.get('loops', {})
    if i not in loops:
      raise Unsupported('loop %d has no invariant in the sidecar' % i)
    return i, loops[i]

  def spec_formula(self, text, st, old_env=None, bound=None):
    sub_spec, sub_old, sub_bound = self.spec, self.old_env, dict(self.bound)
    self.spec, self.old_env = True, old_env if old_env is not None else self.old_env
    if bound:
      self.bound.update(bound)
    saved_g = self.guards
    self.guards = list(self.guards)
    saved_obls = len(self.obls)
    try:
      f = truthy(self.ev(parse_expr(text), st))
    finally:
      self.spec, self.old_env, self.bound = sub_spec, sub_old, sub_bound
      self.guards = saved_g
    # safety obligations raised while evaluating a *specification* are not about the code
    del self.obls[saved_obls:]
    return f

  def loop_old_env(self, st):
    """What old(e) means inside a loop invariant: parameters and fields have their values at the entry of the *unit*
    (also in nested loops); a local that did not exist then has its value at the entry of the loop."""
    env = dict(st.env)
    env.update(getattr(self, 'unit_entry_env', {}))
    return env

  def havoc(self, names, st):
    for nme in names:
      if nme in st.env and isinstance(st.env[nme], V):
        v = st.env[nme]
        t = v.t
        if v.meta == 'empty':
          t = self.declared(nme)
          if t is None:
            raise Unsupported('havoc of untyped empty container %s' % nme)
        st.env[nme] = sv.fresh(t, nme)
        self.wf(st, st.env[nme])
      else:
        t = self.declared(nme)
        if t is not None:
          st.env[nme] = sv.fresh(t, nme)
          self.wf(st, st.env[nme])

  def wf(self, st, v):
    """Well-formedness of a fresh value: list lengths are non-negative."""
    if v.t.kind == 'list':
      st.pc.append(sv.l_len(v) >= 0)

  def s_While(self, s, st):
    if s.orelse:
      raise Unsupported('while-else')
    idx, spec = self.loop_spec(s)
    tag = '[loop%d' % idx
    invs = spec.get('inv', [])
    entry_env = self.loop_old_env(st)
    self.__dict__.setdefault('loop_entry_envs', []).append(dict(st.env))
    for k, inv in enumerate(invs):
      self.emit(st, 'loop-init', self.spec_formula(inv, st, old_env=entry_env), s, inv, tag='%s.inv%d]' % (tag, k))
    written = self.written_names(s.body)
    h = st.copy()
    self.havoc(written, h)
    for k_, inv in enumerate(invs):
      h.pc.append(self.tagged(self.spec_formula(inv, h, old_env=entry_env), ('inv', idx, k_)))
    c = truthy(self.ev(s.test, h))
    out = []
    # iteration
    it = h.copy()
    it.pc.append(c)
    dec0 = None
    if spec.get('dec'):
      dec0 = self.spec_term(spec['dec'], it)
      self.emit(it, 'loop-dec-bounded', dec0 >= 0, s, spec['dec'] + ' >= 0', tag='%s]' % tag)
    for s2, oc, val in self.block(s.body, it):
      if oc in (NORMAL, CONTINUE):
        for k, inv in enumerate(invs):
          self.emit(s2, 'loop-preserved', self.spec_formula(inv, s2, old_env=entry_env), s, inv,
                    tag='%s.inv%d]' % (tag, k), focus=(idx, k))
        if dec0 is not None:
          self.emit(s2, 'loop-decreases', self.spec_term(spec['dec'], s2) < dec0, s, spec['dec'],
                    tag='%s]' % tag)
      elif oc == BREAK:
        out.append((s2, NORMAL, None))
      else:
        out.append((s2, oc, val))
    # exit
    ex = h.copy()
    ex.pc.append(z3.Not(c))
    out.append((ex, NORMAL, None))
    self.loop_entry_envs.pop()
    return out

  def spec_term(self, text, st):
    sub_spec = self.spec
    self.spec = True
    saved_obls = len(self.obls)
    try:
      v = self.ev(parse_expr(text), st)
    finally:
      self.spec = sub_spec
    del self.obls[saved_obls:]
    return v.z

  def s_For(self, s, st):
    if s.orelse:
      # for ... else: the else block runs when the loop ends without break
      body_only = ast.For(target=s.target, iter=s.iter, body=s.body, orelse=[], lineno=s.lineno, col_offset=s.col_offset)
      self._for_else = True
      try:
        outs = self.s_For(body_only, st)
      finally:
        self._for_else = False
      res = []
      for s2, oc, val in outs:
        if oc == NORMAL and s2.ghost.pop('loop_exhausted', False):
          res.extend(self.block(s.orelse, s2))
        else:
          res.append((s2, oc, val))
      return res
    idx, spec = self.loop_spec(s)
    tag = '[loop%d' % idx
    invs = spec.get('inv', [])
    # iteration domain
    it = s.iter
    ivar = '_i%d' % idx
    if isinstance(it, ast.Call) and isinstance(it.func, ast.Name) and it.func.id == 'range':
      args = [self.ev(a, st).z for a in it.args]
      if len(args) == 3:
        raise Unsupported('range with step')
      lo, hi = (z3.IntVal(0), args[0]) if len(args) == 1 else (args[0], args[1])
      ln = z3.If(hi - lo < 0, 0, hi - lo)
      elem = lambda i: sv.mk_int(lo + i)
    else:
      if isinstance(it, ast.Call) and isinstance(it.func, ast.Attribute) and it.func.attr == 'items' \
          and not it.args:
        return self.for_dict_items(s, st, idx, spec)
      c = self.ev(it, st)
      if isinstance(c, V) and c.t.kind == 'set' and c.meta != 'empty':
        return self.for_dict_items(s, st, idx, spec, over_set=c)
      if isinstance(c, V) and c.t.kind == 'dict' and c.meta != 'empty':
        # for k in d: the keys of d (each once)
        return self.for_dict_items(s, st, idx, spec, over_set=V(Ty('set', [c.t.args[0]]), sv.d_keys(c)))
      if not isinstance(c, V) or c.t.kind != 'list':
        raise Unsupported('for over %r at line %d' % (getattr(c, 't', c), s.lineno))
      if c.meta == 'empty':
        return [(st, NORMAL, None)]
      ln = sv.l_len(c)
      elem = lambda i, c=c: V(c.t.args[0], z3.Select(sv.l_arr(c), i))
    entry_env = self.loop_old_env(st)
    self.__dict__.setdefault('loop_entry_envs', []).append(dict(st.env))
    st.env[ivar] = sv.mk_int(0)
    for k, inv in enumerate(invs):
      self.emit(st, 'loop-init', self.spec_formula(inv, st, old_env=entry_env), s, inv, tag='%s.inv%d]' % (tag, k))
    written = self.written_names(s.body) | {x.id for x in ast.walk(s.target) if isinstance(x, ast.Name)}
    h = st.copy()
    self.havoc(written, h)
    i = z3.Int(sv.fresh_name(ivar))
    h.env[ivar] = sv.mk_int(i)
    h.pc.append(z3.And(0 <= i, i <= ln))
    for k_, inv in enumerate(invs):
      h.pc.append(self.tagged(self.spec_formula(inv, h, old_env=entry_env), ('inv', idx, k_)))
    out = []
    itst = h.copy()
    itst.pc.append(i < ln)
    self.assign(s.target, elem(i), itst)
    for s2, oc, val in self.block(s.body, itst):
      if oc in (NORMAL, CONTINUE):
        s2.env[ivar] = sv.mk_int(i + 1)
        for k, inv in enumerate(invs):
          self.emit(s2, 'loop-preserved', self.spec_formula(inv, s2, old_env=entry_env), s, inv,
                    tag='%s.inv%d]' % (tag, k), focus=(idx, k))
      elif oc == BREAK:
        out.append((s2, NORMAL, None))
      else:
        out.append((s2, oc, val))
    ex = h.copy()
    ex.pc.append(i == ln)
    ex.ghost = dict(ex.ghost)
    ex.ghost['loop_exhausted'] = True
    out.append((ex, NORMAL, None))
    self.loop_entry_envs.pop()
    return out

  def for_dict_items(self, s, st, idx, spec, over_set=None):
    """for k, v in d.items() / for x in <set>: the visiting order is abstracted.  Ghost `_visited<i>` (a set of keys /
    members) is empty at entry, grows by the element just processed, and equals the whole domain at the normal exit
    (Python visits every element exactly once; the loop body must not write the container -- checked).  The body is
    executed for an arbitrary element not yet visited, from an arbitrary state satisfying the invariant, which may
    mention the ghost set."""
    tag = '[loop%d' % idx
    invs = spec.get('inv', [])
    d = over_set if over_set is not None else self.ev(s.iter.func.value, st)
    if over_set is None and (not isinstance(d, V) or d.t.kind != 'dict'):
      raise Unsupported('items() of %r' % (getattr(d, 't', d),))
    dom = d.z if over_set is not None else sv.d_keys(d)
    kt = d.t.args[0]
    vname = '_visited%d' % idx
    vt = Ty('set', [kt])
    written = self.written_names(s.body) | {x.id for x in ast.walk(s.target) if isinstance(x, ast.Name)}
    cont = s.iter if over_set is not None else s.iter.func.value
    if root_name(cont) in written:
      raise Unsupported('the loop body writes the container it iterates over (line %d)' % s.lineno)
    st.env[vname] = V(vt, sv.empty_set_z(vt))
    entry_env = self.loop_old_env(st)
    self.__dict__.setdefault('loop_entry_envs', []).append(dict(st.env))
    for k, inv in enumerate(invs):
      self.emit(st, 'loop-init', self.spec_formula(inv, st, old_env=entry_env), s, inv, tag='%s.inv%d]' % (tag, k))
    h = st.copy()
    self.havoc(written, h)
    vis = sv.fresh(vt, vname)
    h.env[vname] = vis
    xq = z3.Const(sv.fresh_name('vq'), sv.zsort(kt))
    h.pc.append(z3.ForAll([xq], z3.Implies(z3.Select(vis.z, xq), z3.Select(dom, xq)), patterns=[z3.Select(vis.z, xq)]))
    for k_, inv in enumerate(invs):
      h.pc.append(self.tagged(self.spec_formula(inv, h, old_env=entry_env), ('inv', idx, k_)))
    out = []
    itst = h.copy()
    key = sv.fresh(kt, 'key')
    itst.pc.append(z3.Select(dom, key.z))
    itst.pc.append(z3.Not(z3.Select(vis.z, key.z)))
    if over_set is not None:
      self.assign(s.target, key, itst)
    else:
      val = V(d.t.args[1], z3.Select(sv.d_vals(d), key.z))
      self.assign(s.target, sv.mk_tuple([key, val]), itst)
    for s2, oc, v_ in self.block(s.body, itst):
      if oc in (NORMAL, CONTINUE):
        s2.env[vname] = V(vt, z3.Store(vis.z, key.z, True))
        for k, inv in enumerate(invs):
          self.emit(s2, 'loop-preserved', self.spec_formula(inv, s2, old_env=entry_env), s, inv,
                    tag='%s.inv%d]' % (tag, k), focus=(idx, k))
      elif oc == BREAK:
        out.append((s2, NORMAL, None))
      else:
        out.append((s2, oc, v_))
    ex = h.copy()
    ex.pc.append(z3.ForAll([xq], z3.Select(vis.z, xq) == z3.Select(dom, xq)))
    ex.ghost = dict(ex.ghost)
    ex.ghost['loop_exhausted'] = True
    out.append((ex, NORMAL, None))
    self.loop_entry_envs.pop()
    return out

  def s_Break(self, s, st):
    return [(st, BREAK, None)]

  def s_Continue(self, s, st):
    return [(st, CONTINUE, None)]

  # ---------------------------------------------------------------- driver
  def run(self):
    u = self.u
    st = St()
    body, _ = strip_doc(self.node.body)
    params = [a.arg for a in self.node.args.args]
    if params and params[0] in ('self', 'cls'):
      params = params[1:]
    if params != u['params']:
      raise Unsupported('parameter list changed: %s vs contract %s' % (params, u['params']))
    if self.node.args.vararg or self.node.args.kwarg:
      raise Unsupported('varargs')
    for p in params:
      t = self.declared(p)
      if t is None:
        raise Unsupported('no type for parameter %s' % p)
      if t.kind == 'rec':
        fs = self.u['records'][t.args[0]]
        st.env[p] = RecV(t.args[0], {f: sv.const(self.ty(ft), '%s.%s' % (p, f)) for f, ft in fs.items()})
        continue
      st.env[p] = sv.const(t, p)
      self.wf(st, st.env[p])
    for key, ts in u.get('fields', {}).items():
      st.env[key] = sv.const(self.ty(ts), key)
      self.wf(st, st.env[key])
    for key, ts in u.get('ghost_params', {}).items():
      st.env[key] = sv.const(self.ty(ts), key)
      self.wf(st, st.env[key])
    if u.get('yields'):
      st.env['__yields'] = sv.list_from_elems(Ty('list', [self.ty(u['yields'])]), [])
    for ax in u.get('axioms', []):
      st.pc.append(self.spec_formula(ax, st))
    for r in u.get('requires', []):
      st.pc.append(self.tagged(self.spec_formula(r, st), ('req', u.get('requires', []).index(r))))
    self.pre_state = st.copy()
    self.obls.append(Obl(u['name'] + '/pre-satisfiable', 'vacuity', list(st.pc), None, 0,
                         'preconditions are satisfiable', expect='sat'))
    old_env = dict(st.env)
    self.unit_entry_env = dict(st.env)
    outs = self.block(body, st)
    n_normal = 0
    raises = u.get('raises', {})
    for s2, oc, val in outs:
      if oc in (BREAK, CONTINUE):
        raise Unsupported('break/continue outside loop')
      if oc == NORMAL:
        oc, val = RETURN, sv.mk_none()
        if u.get('result_var'):
          val = s2.env[u['result_var']]
      if oc == RETURN:
        n_normal += 1
        rt = self.ret_type()
        if rt is not None and not isinstance(val, RecV):
          val = coerce(val, rt)
        fin = {'final_' + k_: v_ for k_, v_ in s2.env.items() if isinstance(v_, V) and '.' not in k_}
        for gf, gspec in u.get('ghost_defs', {}).items():
          s2.env[gf] = self.ghost_value(self, gf, gspec, s2, old_env)
        # frame: a declared field outside `modifies` has its entry value at every normal exit
        for key in u.get('fields', {}):
          if key not in u.get('modifies', []) and key in s2.env and key in old_env and \
              s2.env[key] is not old_env[key] and u.get('modifies') is not None:
            self.emit(s2, 'frame', eq(s2.env[key], old_env[key]), None, '%s is not modified' % key,
                      tag='[%s]' % key)
        for k, e in enumerate(u.get('ensures', [])):
          if k in u.get('smt_skip_ensures', []):
            continue          # clause stated for the native back end only (see sidecar)
          f = self.spec_formula(e, s2, old_env=old_env, bound=dict(fin, result=val))
          self.emit(s2, 'post', f, None, e, tag='[%d]' % k)
        for exc, cond in raises.items():
          tmp = St()
          tmp.env, tmp.pc = old_env, s2.pc
          f = self.spec_formula(cond, tmp)
          self.emit(s2, 'no-raise', z3.Not(f), None, 'returns normally only if not (%s)' % cond,
                    tag='[%s]' % exc)
        self.obls.append(Obl(u['name'] + '/exit-reachable', 'vacuity', list(s2.pc), None, 0,
                             'a normal exit is reachable', expect='sat-any'))
      elif oc == RAISE:
        name = val.name if isinstance(val, Callable_) else 'Exception'
        if name in u.get('may_raise', {}):
          tmp = St()
          tmp.env, tmp.pc = old_env, s2.pc
          f = self.spec_formula(u['may_raise'][name], tmp)
          self.emit(s2, 'raise-only-if', f, None, 'raises %s only if %s' % (name, u['may_raise'][name]),
                    tag='[%s]' % name)
        elif name in raises:
          tmp = St()
          tmp.env, tmp.pc = old_env, s2.pc
          f = self.spec_formula(raises[name], tmp)
          self.emit(s2, 'raise-only-if', f, None, 'raises %s only if %s' % (name, raises[name]),
                    tag='[%s]' % name)
        else:
          self.emit(s2, 'no-unexpected-raise', z3.BoolVal(False), None,
                    'raise of %s is not allowed by the contract' % name, tag='[%s]' % name)
    return self.obls


def strip_doc(body):
  from . import extract
  return extract.strip_docstring(body)


def is_free_symbol(z):
  try:
    if not z3.is_app(z) or z.decl().kind() != z3.Z3_OP_UNINTERPRETED:
      return False
  except z3.Z3Exception:
    return False
  n = z.decl().name()
  return z.num_args() == 0 and '!' in n or n.startswith('pure_')


def guard_all(guards, f):
  return z3.Implies(z3.And(*guards), f) if guards else f


def concat(parts):
  if not parts:
    return z3.StringVal('')
  if len(parts) == 1:
    return parts[0]
  return z3.Concat(*parts)


def isspace_uf():
  return uf('isspace', [z3.StringSort()], z3.BoolSort())


def join_of(sep, lst):
  """sep.join(lst): uninterpreted in (sep, normalised element array, length).  Normalising the
  array outside [0,len) makes two joins equal as soon as the lists are equal element-wise."""
  f = uf('join', [z3.StringSort(), z3.ArraySort(z3.IntSort(), z3.StringSort()), z3.IntSort()],
         z3.StringSort())
  i = z3.Int('i!jn')
  n = sv.l_len(lst)
  norm = z3.Lambda([i], z3.If(z3.And(0 <= i, i < n), z3.Select(sv.l_arr(lst), i), z3.StringVal('')))
  return f(sep, norm, n)


def replace_all(s, a, b):
  f = getattr(z3, 'ReplaceAll', None)
  if f is not None:
    return f(s, a, b)
  # str.replace(a, b): uninterpreted where the pattern occurs, the identity where it does not
  # (assumed property of str.replace; the character-level behaviour is decided by vlib/strhom.py)
  g = uf('str_replace', [z3.StringSort()] * 3, z3.StringSort())
  return z3.If(z3.Contains(s, a), g(s, a, b), s)


def dotted_name(n):
  parts = []
  while isinstance(n, ast.Attribute):
    parts.append(n.attr)
    n = n.value
  if isinstance(n, ast.Name):
    parts.append(n.id)
    return '.'.join(reversed(parts))
  return None


def root_name(n):
  """x -> 'x', self.f[...] -> 'self.f', x[..].y -> 'x'."""
  while True:
    if isinstance(n, ast.Name):
      return n.id
    if isinstance(n, ast.Attribute):
      dn = dotted_name(n)
      if dn and dn.startswith('self.'):
        return dn
      n = n.value
    elif isinstance(n, ast.Subscript):
      n = n.value
    else:
      return None


def unify_types(a, b):
  if a == b:
    return a
  if a.kind == 'none':
    return b if b.kind == 'opt' else Ty('opt', [b])
  if b.kind == 'none':
    return a if a.kind == 'opt' else Ty('opt', [a])
  if a.kind == 'opt' and a.args[0] == b:
    return a
  if b.kind == 'opt' and b.args[0] == a:
    return b
  if a.kind == 'val' or b.kind == 'val':
    return VAL
  raise Unsupported('cannot unify %r and %r' % (a, b))


_parse_cache = {}


def parse_expr(text):
  if text not in _parse_cache:
    _parse_cache[text] = ast.parse(text.strip(), mode='eval').body
  return _parse_cache[text]


MUTATORS = {'append', 'extend', 'add', 'update', 'remove', 'insert', 'pop', 'clear', 'discard'}
BUILTINS = {'map', 'len', 'str', 'isinstance', 'set', 'list', 'min', 'max', 'abs', 'sorted', 'print',
            'range', 'int', 'dict', 'tuple'}
SPEC_BUILTINS = {'isspace', 'intval', 'strval', 'text_of'}
EXC_NAMES = {'Exception', 'RuleCompileException', 'ParsingException', 'FunctorError',
             'AssertionError', 'ValueError', 'KeyError', 'TypeErrorCaughtException'}
