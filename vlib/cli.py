"""The command line tool as a unit under contract: `python logica.py <file> <command> <predicate> [--flag=value ...]`
in a subprocess of the repository's interpreter, from the current working tree."""
import csv
import io
import os
import subprocess
import tempfile

REPO = os.environ.get('VERIF_REPO', '/repo')
PY = '/venv/bin/python'


def run(program_text, command, predicate, flags=(), env=None, timeout=120, extra_files=None):
  """Returns (exit code, stdout, stderr).  extra_files: {relative path: text} written next to the program (the
  working directory of the run); `{cwd}` in an environment value is replaced by that directory."""
  d = tempfile.mkdtemp(prefix='verif_cli_')
  try:
    path = os.path.join(d, 'program.l')
    with open(path, 'w', encoding='utf-8') as f:
      f.write(program_text)
    for rel, text in (extra_files or {}).items():
      os.makedirs(os.path.dirname(os.path.join(d, rel)), exist_ok=True)
      with open(os.path.join(d, rel), 'w', encoding='utf-8') as f:
        f.write(text)
    env = {k: v.replace('{cwd}', d) for k, v in (env or {}).items()}
    e = dict(os.environ)
    e.pop('LOGICAPATH', None)
    e.update(env or {})
    r = subprocess.run([PY, os.path.join(REPO, 'logica.py'), path, command, predicate] + list(flags),
                       capture_output=True, text=True, env=e, timeout=timeout, cwd=d)
    return r.returncode, r.stdout, r.stderr
  finally:
    import shutil
    shutil.rmtree(d, ignore_errors=True)


def csv_rows(stdout):
  """Rows (without the header) of a run_to_csv output."""
  rows = list(csv.reader(io.StringIO(stdout)))
  rows = [r for r in rows if r]
  return [tuple(r) for r in rows[1:]]
