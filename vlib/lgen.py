"""Catalogue of Logica program schemas with their spec functions (bounded pipeline contracts).

Each schema: name, text (program over extensional tables = undefined predicates, which the
compiler reads as SQLite tables with columns col0, col1, ...), tables {name: arity}, and
spec {predicate: lambda db -> list of rows}, the documentation's "acts like this Python program"
reading.  `tags` lists the properties whose bounded tier uses the schema.
"""
import json

E = '@Engine("sqlite");\n'


def J(x):
  """SQLite JSON text of a Python list / dict as JSON_ARRAY / JSON_OBJECT print it."""
  return json.dumps(x, separators=(',', ':'))


E_TYPED = '@Engine("sqlite", type_checking: true);\n'


def S(name, text, tables, spec, tags=('C01',), **kw):
  d = dict(name=name, text=(E_TYPED if kw.pop('typed', False) else E) + text, tables=tables, spec=spec, tags=tuple(tags))
  d.update(kw)
  return d


CORE = [
  S('copy', 'P(x, y) :- Q(x, y);', {'Q': 2},
    {'P': lambda db: [(x, y) for (x, y) in db['Q']]}, cols={'P': ['col0', 'col1']}),
  S('facts_dup', 'T(1); T(1); T(2); T(0);\nP(x) :- T(x);\nD(x, y) :- T(x), T(y), x < y;', {},
    {'T': lambda db: [(1,), (1,), (2,), (0,)], 'P': lambda db: [(1,), (1,), (2,), (0,)],
     'D': lambda db: [(x, y) for x in (1, 1, 2, 0) for y in (1, 1, 2, 0) if x < y]}),
  S('join', 'P(x, z) :- Q(x, y), R(y, z);', {'Q': 2, 'R': 2},
    {'P': lambda db: [(x, z) for (x, y) in db['Q'] for (y2, z) in db['R'] if y == y2]},
    cols={'P': ['col0', 'col1']}),
  S('selfjoin', 'P(x, z) :- Q(x, y), Q(y, z);', {'Q': 2},
    {'P': lambda db: [(x, z) for (x, y) in db['Q'] for (y2, z) in db['Q'] if y == y2]}),
  S('join_arith_cmp', 'P(x, x + z * 2) :- Q(x, y), R(y, z), x <= z, y != 1;', {'Q': 2, 'R': 2},
    {'P': lambda db: [(x, x + z * 2) for (x, y) in db['Q'] for (y2, z) in db['R']
                      if y == y2 and x <= z and y != 1]}),
  S('const_arg', 'P(y) :- Q(1, y);\nK(x) :- Q(x, x);', {'Q': 2},
    {'P': lambda db: [(y,) for (x, y) in db['Q'] if x == 1],
     'K': lambda db: [(x,) for (x, y) in db['Q'] if x == y]}),
  S('disj', 'P(x) :- Q(x, y), (y == 1 | y == 2 | x == y);', {'Q': 2},
    {'P': lambda db: [(x,) for (x, y) in db['Q'] for alt in (y == 1, y == 2, x == y) if alt]}),
  S('disj_tables', 'P(x) :- A(x) | B(x) | A(x), B(x);', {'A': 1, 'B': 1},
    {'P': lambda db: [(x,) for (x,) in db['A']] + [(x,) for (x,) in db['B']] +
                     [(x,) for (x,) in db['A'] for (y,) in db['B'] if x == y]}),
  S('multi_rule', 'P(x) :- A(x);\nP(x) :- B(x);\nP(x + 10) :- A(x), B(x);', {'A': 1, 'B': 1},
    {'P': lambda db: [(x,) for (x,) in db['A']] + [(x,) for (x,) in db['B']] +
                     [(x + 10,) for (x,) in db['A'] for (y,) in db['B'] if x == y]}),
  S('dnf_product', 'P(x, y) :- (A(x) | B(x)), (A(y) | B(y)), x < y;', {'A': 1, 'B': 1},
    {'P': lambda db: [(x, y) for (x,) in db['A'] + db['B'] for (y,) in db['A'] + db['B'] if x < y]}),
  S('named_args', 'P(a: x, b: y) :- Q(x, y);\nR(u, v) :- P(a: u, b: v);\nR2(v) :- P(b: v);', {'Q': 2},
    {'P': lambda db: list(db['Q']), 'R': lambda db: list(db['Q']),
     'R2': lambda db: [(y,) for (x, y) in db['Q']]},
    cols={'P': ['a', 'b'], 'R': ['col0', 'col1']}),
  S('mixed_args', 'P(x, tag: y) :- Q(x, y);\nR(t, x) :- P(x, tag: t);', {'Q': 2},
    {'P': lambda db: list(db['Q']), 'R': lambda db: [(y, x) for (x, y) in db['Q']]},
    cols={'P': ['col0', 'tag']}),
  S('assign', 'P(x, z) :- Q(x, y), z == x * 10 + y;\nP2(z) :- z == 7;', {'Q': 2},
    {'P': lambda db: [(x, x * 10 + y) for (x, y) in db['Q']], 'P2': lambda db: [(7,)]}),
  S('in_literal', 'P(x, y) :- Q(x, y), x in [0, 2];\nP3(v) :- v in [1, 1, 3];', {'Q': 2},
    {'P': lambda db: [(x, y) for (x, y) in db['Q'] for c in (0, 2) if x == c],
     'P3': lambda db: [(1,), (1,), (3,)]}),
  S('in_column', 'L(x, [x, y, 5]) :- Q(x, y);\nP(x, e) :- L(x, l), e in l;', {'Q': 2},
    {'L': lambda db: [(x, J([x, y, 5])) for (x, y) in db['Q']],
     'P': lambda db: [(x, e) for (x, y) in db['Q'] for e in (x, y, 5)]}),
  S('record', 'P(x, {a: x, b: y + 1}) :- Q(x, y);\nF(r.b, r.a) :- P(x, r);', {'Q': 2},
    {'P': lambda db: [(x, J({'a': x, 'b': y + 1})) for (x, y) in db['Q']],
     'F': lambda db: [(y + 1, x) for (x, y) in db['Q']]}),
  S('if_then_else', 'P(x, if y > x then "up" else if y == x then "eq" else "down") :- Q(x, y);', {'Q': 2},
    {'P': lambda db: [(x, 'up' if y > x else ('eq' if y == x else 'down')) for (x, y) in db['Q']]}),
  S('functional', 'F(x) = y * 2 :- Q(x, y);\nG(x, F(x)) :- A(x);\nH(v) :- v == F(1);',
    {'Q': 2, 'A': 1},
    {'F': lambda db: [(x, y * 2) for (x, y) in db['Q']],
     'G': lambda db: [(x, y * 2) for (x,) in db['A'] for (x2, y) in db['Q'] if x2 == x],
     'H': lambda db: [(y * 2,) for (x, y) in db['Q'] if x == 1]},
    cols={'F': ['col0', 'logica_value']}),
  S('functional_conjunct', 'F(x) = y :- Q(x, y);\nG(x) :- A(x), F(x) == 1;\nG2(x, v) :- A(x), v == F(x) + F(x);',
    {'Q': 2, 'A': 1},
    {'G': lambda db: [(x,) for (x,) in db['A'] for (x2, y) in db['Q'] if x2 == x and y == 1],
     'G2': lambda db: [(x, y + y3) for (x,) in db['A'] for (x2, y) in db['Q'] if x2 == x
                       for (x3, y3) in db['Q'] if x3 == x]}),
  S('injectible', 'Inc(x) = x + 1;\nDouble(x, y) :- y == x * 2;\nP(Inc(x), d) :- A(x), Double(Inc(x), d);', {'A': 1},
    {'P': lambda db: [(x + 1, (x + 1) * 2) for (x,) in db['A']]}),
  S('inject_chain', 'M(x, y) :- Q(x, y), x < 2;\nN(x) :- M(x, y), M(y, z);\nO(x) :- N(x), A(x);', {'Q': 2, 'A': 1},
    {'N': lambda db: [(x,) for (x, y) in db['Q'] if x < 2 for (y2, z) in db['Q'] if y2 < 2 and y2 == y],
     'O': lambda db: [(x,) for (x, y) in db['Q'] if x < 2 for (y2, z) in db['Q'] if y2 < 2 and y2 == y
                      for (a,) in db['A'] if a == x]}),
  S('nested_two', 'P(x, s) :- Q(x, y), (R(y, s) | s == x + y, y in [1, 2]);', {'Q': 2, 'R': 2},
    {'P': lambda db: [(x, s) for (x, y) in db['Q'] for (y2, s) in db['R'] if y2 == y] +
                     [(x, x + y) for (x, y) in db['Q'] for c in (1, 2) if y == c]}),
  S('strings', 'P(x ++ "-" ++ y) :- N(x), N(y), x != y;', {'N': 1},
    {'P': lambda db: [(x + '-' + y,) for (x,) in db['N'] for (y,) in db['N'] if x != y]},
    domain=['a', 'b', '']),
  S('unused_and_shared', 'P(x) :- Q(x, y), Q(x, z), R(z, w);', {'Q': 2, 'R': 2},
    {'P': lambda db: [(x,) for (x, y) in db['Q'] for (x2, z) in db['Q'] if x2 == x
                      for (z2, w) in db['R'] if z2 == z]}),
  S('three_way', 'P(a, c) :- A(a), Q(a, b), R(b, c), A(c);', {'A': 1, 'Q': 2, 'R': 2},
    {'P': lambda db: [(a, c) for (a,) in db['A'] for (a2, b) in db['Q'] if a2 == a
                      for (b2, c) in db['R'] if b2 == b for (c2,) in db['A'] if c2 == c]},
    max_rows={'quick': 2, 'thorough': 2}),
  # two rules of one predicate listing the same named arguments in different orders (known finding)
  S('named_args_reordered', 'P(a: x, b: y) :- Q(x, y);\nP(b: x, a: y) :- Q(x, y);', {'Q': 2},
    {'P': lambda db: [(x, y) for (x, y) in db['Q']] + [(y, x) for (x, y) in db['Q']]}, cols={'P': ['a', 'b']}),
  S('arith_nesting', 'P(x, y, -(x + y), -(x - y), x - (y - 1), x - (y + 1), x * (y + 1), (x + y) * (x - y), -(-x), '
    '2 * (-x), -x * y, x - (-y), -(x * y) + 1, (x - y) - (y - x)) :- Q(x, y);', {'Q': 2},
    {'P': lambda db: [(x, y, -(x + y), -(x - y), x - (y - 1), x - (y + 1), x * (y + 1), (x + y) * (x - y), -(-x),
                       2 * -x, -x * y, x - -y, -(x * y) + 1, (x - y) - (y - x)) for (x, y) in db['Q']]},
    domain=[-1, 0, 2, 3]),
  # chained unnestings written out of dependency order
  S('unnest_chain3', 'P(n, a, b, c) :- N(n), a in Range(n), c in Range(b), b in Range(a);\n'
    'P2(a, c) :- N(n), c in [a, a + 1], a in Range(n);', {'N': 1},
    {'P': lambda db: [(n, a, b, c) for (n,) in db['N'] for a in range(n) for b in range(a) for c in range(b)],
     'P2': lambda db: [(a, c) for (n,) in db['N'] for a in range(n) for c in (a, a + 1)]},
    tags=('C01', 'C07'), domain=[0, 2, 4]),
  # a WITH-compiled predicate reached from two separately built queries (main + a grounded one)
  S('with_two_parents', 'C(x) distinct :- Q(x, y), x > 0;\nB(x) distinct :- C(x);\n@Ground(G);\nG(x) :- B(x);\n'
    'W(x) :- G(x), B(x);', {'Q': 2},
    {'W': lambda db: [(x,) for x in {x for (x, y) in db['Q'] if x > 0}]}, tags=('C01', 'C08', 'C17')),
  # degenerate shapes: no table at all, constants only, single-fact predicates that get injected
  # an if-then-else of record literals bound to a variable and subscripted twice in one rule
  S('if_records_two_subscripts', 'P(x, r.a, r.b) :- A(x), r == (if x > 1 then {a: x, b: x + 1} else {a: 100, b: 200});\n'
    'Rec(x) = (if x > 1 then {a: x, b: x + 1} else {a: 100, b: 200});\nP2(x, r.b, r.a, r.b) :- A(x), r == Rec(x);',
    {'A': 1},
    {'P': lambda db: [(x, x, x + 1) if x > 1 else (x, 100, 200) for (x,) in db['A']],
     'P2': lambda db: [(x, x + 1, x, x + 1) if x > 1 else (x, 200, 100, 200) for (x,) in db['A']]}),
  # parenthesised groups of conjuncts (with and without a disjunction inside)
  S('paren_groups', 'P(x) :- (A(x), B(x)), x > 0;\nP2(x) :- (A(x), (B(x) | x == 1)), x < 3;\n'
    'P3(x) :- x > 0, ((A(x)), (B(x), x < 3));', {'A': 1, 'B': 1},
    {'P': lambda db: [(x,) for (x,) in db['A'] for (y,) in db['B'] if x == y and x > 0],
     'P2': lambda db: [(x,) for (x,) in db['A'] if x < 3 for alt in ([1 for (y,) in db['B'] if y == x] + [1] * (x == 1))],
     'P3': lambda db: [(x,) for (x,) in db['A'] for (y,) in db['B'] if x == y and 0 < x < 3]},
    tags=('C01', 'C15')),
  # a predicate with several hundred facts
  S('many_facts', ''.join('T(%d);%s' % (i % 97, '\n' if i % 10 == 9 else ' ') for i in range(301)) +
    '\nQ(x) :- T(x), x > 90;\nN() += 1 :- T(x);\nSm() += x :- T(x);', {},
    {'Q': lambda db: [(i % 97,) for i in range(301) if i % 97 > 90], 'N': lambda db: [(301,)],
     'Sm': lambda db: [(sum(i % 97 for i in range(301)),)]}, tags=('C01', 'C07')),
  # a body-less functional predicate whose value is an aggregating expression, injected into a caller that
  # uses the same variable names as the sub-query
  S('bodyless_combine_value', 'Total() = Sum{y :- Q(x, y)};\nDeg(x) = Sum{1 :- Q(x, y)};\n'
    'P(y, t) :- A(y), t == Total();\nP2(y, Deg(y)) :- A(y);\nP3(x, Deg(x)) :- A(x);', {'A': 1, 'Q': 2},
    {'P': lambda db: [(y, sum(v for (_, v) in db['Q']) if db['Q'] else None) for (y,) in db['A']],
     'P2': lambda db: [(y, (lambda l: sum(l) if l else None)([1 for (x, _) in db['Q'] if x == y])) for (y,) in db['A']],
     'P3': lambda db: [(y, (lambda l: sum(l) if l else None)([1 for (x, _) in db['Q'] if x == y])) for (y,) in db['A']]},
    tags=('C01', 'C02', 'C08'), max_rows={'quick': 2, 'thorough': 2}),
  # a literal in a head column of an injected predicate, called with a different literal in that column
  S('constant_clash', 'Pet("cat", n) :- A(n);\nPet2(1, n) :- A(n);\nWrap(2, x) :- Pet2(1, x);\n'
    'P(n) :- Pet("dog", n);\nPc(n) :- Pet("cat", n);\nP2(x) :- Pet2(2, x);\nP3(x) :- Wrap(2, x);\nP4(x) :- Wrap(1, x);',
    {'A': 1},
    {'P': lambda db: [], 'Pc': lambda db: list(db['A']), 'P2': lambda db: [], 'P3': lambda db: list(db['A']),
     'P4': lambda db: []}, tags=('C01', 'C08')),
  S('tableless', 'Threshold(5);\nSmall(x) :- Threshold(x), x < 3;\nBig(x) :- Threshold(x), x > 3;\n'
    'C(y) :- y == 2 + 2, y > 10;\nC2(y) :- y == 2 + 2, y < 10;\n'
    'Mixed(x) :- x == 5, (x > 7 | x < 9 | x == 5);\nPair(x, y) :- x in [1, 2], y == x + 1, y != 2;', {},
    {'Small': lambda db: [], 'Big': lambda db: [(5,)], 'C': lambda db: [], 'C2': lambda db: [(4,)],
     'Mixed': lambda db: [(5,), (5,)], 'Pair': lambda db: [(2, 3)]}),
  S('const_heads', 'One(1, "a");\nOne(2, "b");\nK(x, 7) :- One(x, s), s != "a";\nZ("lit", x) :- A(x), x > 0;',
    {'A': 1},
    {'One': lambda db: [(1, 'a'), (2, 'b')], 'K': lambda db: [(2, 7)],
     'Z': lambda db: [('lit', x) for (x,) in db['A'] if x > 0]}),
  S('empty_and_zero', 'P(x, y) :- Q(x, y), x == 0;\nP0(x - x, y * 0) :- Q(x, y);\nE(x) :- Q(x, y), x in [];',
    {'Q': 2},
    {'P': lambda db: [(x, y) for (x, y) in db['Q'] if x == 0],
     'P0': lambda db: [(0, 0) for _ in db['Q']], 'E': lambda db: []}),
]


def agg(db_rows, key, val, fn):
  groups = {}
  for r in db_rows:
    groups.setdefault(key(r), []).append(val(r))
  return [tuple(k) + (fn(v),) for k, v in groups.items()]


def nn(vs):
  return [v for v in vs if v is not None]


AGG = [
  S('sum', 'P(x) += y :- Q(x, y);', {'Q': 2},
    {'P': lambda db: agg(db['Q'], lambda r: (r[0],), lambda r: r[1], sum)}, tags=('C02',),
    cols={'P': ['col0', 'logica_value']}),
  S('min_max', 'P(x, lo? Min= y, hi? Max= y) distinct :- Q(x, y);', {'Q': 2},
    {'P': lambda db: [(k[0], min(v), max(v)) for k, v in
                      _groups(db['Q'], lambda r: (r[0],), lambda r: r[1])]}, tags=('C02',),
    cols={'P': ['col0', 'lo', 'hi']}),
  S('count', 'P(x) Count= y :- Q(x, y);\nC() += 1 :- Q(x, y);', {'Q': 2},
    {'P': lambda db: agg(db['Q'], lambda r: (r[0],), lambda r: r[1], lambda v: len(set(v))),
     # an aggregating predicate without key columns: one row, null when nothing is aggregated
     'C': lambda db: [(len(db['Q']) or None,)]}, tags=('C02',)),
  S('distinct', 'P(x) distinct :- Q(x, y);\nD(x, y) distinct :- Q(x, y) | Q(y, x);', {'Q': 2},
    {'P': lambda db: [(x,) for x in {x for (x, y) in db['Q']}],
     'D': lambda db: [r for r in {(x, y) for (x, y) in db['Q']} | {(y, x) for (x, y) in db['Q']}]},
    tags=('C02',)),
  S('list_set', 'P(x) List= y :- Q(x, y);\nS(x) Set= y :- Q(x, y);', {'Q': 2},
    {'P': lambda db: agg(db['Q'], lambda r: (r[0],), lambda r: r[1], lambda v: J(sorted(v))),
     'S': lambda db: agg(db['Q'], lambda r: (r[0],), lambda r: r[1], lambda v: J(sorted(set(v))))},
    tags=('C02',), row_norm='sort_json_lists'),
  S('multi_body', 'P(x) += y :- Q(x, y);\nP(x) += 10 :- A(x);', {'Q': 2, 'A': 1},
    {'P': lambda db: agg([(x, y) for (x, y) in db['Q']] + [(x, 10) for (x,) in db['A']],
                         lambda r: (r[0],), lambda r: r[1], sum)}, tags=('C02',)),
  S('multi_body_minmax', 'P(x, m? Max= y) distinct :- Q(x, y);\nP(x, m? Max= 1) distinct :- A(x);',
    {'Q': 2, 'A': 1},
    {'P': lambda db: agg([(x, y) for (x, y) in db['Q']] + [(x, 1) for (x,) in db['A']],
                         lambda r: (r[0],), lambda r: r[1], max)}, tags=('C02',)),
  S('agg_expr_correlated', 'P(x, Sum{y :- Q(x, y)}) :- A(x);\nP2(x, m) :- A(x), m == Max{y + x :- Q(z, y), z >= x};',
    {'Q': 2, 'A': 1},
    {'P': lambda db: [(x, _none_if_empty([y for (x2, y) in db['Q'] if x2 == x], sum)) for (x,) in db['A']],
     'P2': lambda db: [(x, _none_if_empty([y + x for (z, y) in db['Q'] if z >= x], max)) for (x,) in db['A']]},
    tags=('C02',)),
  S('concise_combine', 'P(x, s) :- A(x), s += (y :- Q(x, y));\nP2(x, c) :- A(x), c Count= (y :- Q(z, y), z != x);',
    {'Q': 2, 'A': 1},
    {'P': lambda db: [(x, _none_if_empty([y for (x2, y) in db['Q'] if x2 == x], sum)) for (x,) in db['A']],
     'P2': lambda db: [(x, len({y for (z, y) in db['Q'] if z != x})) for (x,) in db['A']]},
    tags=('C02',)),
  S('two_combines_same_local', 'P(x, a, b) :- A(x), a == Sum{y :- Q(x, y)}, b == Sum{y :- Q(y, x)};',
    {'Q': 2, 'A': 1},
    {'P': lambda db: [(x, _none_if_empty([y for (x2, y) in db['Q'] if x2 == x], sum),
                       _none_if_empty([y for (y, x2) in db['Q'] if x2 == x], sum)) for (x,) in db['A']]},
    tags=('C02',)),
  S('sibling_combines_dependent',
    'P(x, a, b) :- A(x), a == Sum{y :- Q(x, y)}, b == Max{y + a :- R(x, y)};\n'
    'P2(x, b) :- A(x), a == Sum{y :- Q(x, y)}, b == Sum{y * a :- Q(y, x)};', {'Q': 2, 'R': 2, 'A': 1},
    {'P': lambda db: [(x, _sum([y for (x2, y) in db['Q'] if x2 == x]),
                       _none_if_empty(nn([_add(y, _sum([y for (x2, y) in db['Q'] if x2 == x]))
                                          for (x3, y) in db['R'] if x3 == x]), max))
                      for (x,) in db['A']],
     'P2': lambda db: [(x, _none_if_empty(nn([_mul(y, _sum([y for (x2, y) in db['Q'] if x2 == x]))
                                              for (y, x3) in db['Q'] if x3 == x]), sum))
                       for (x,) in db['A']]},
    tags=('C02',), max_rows={'quick': 2, 'thorough': 2}),
  # a combine inside an injected predicate and a combine of the caller use the same local name,
  # and the injected value is used inside the caller's combine
  S('inject_combine_same_local',
    'PerKey(k, a) :- A(k), a == Sum{y :- Q(k, y)};\nW(k, b) :- PerKey(k, a), b == Sum{y :- R(a, y)};',
    {'A': 1, 'Q': 2, 'R': 2},
    {'W': lambda db: [(k, _none_if_empty([y for (a2, y) in db['R']
                                           if a2 == _sum([y2 for (k2, y2) in db['Q'] if k2 == k])], sum))
                      for (k,) in db['A']]},
    tags=('C02', 'C07', 'C08'), max_rows={'quick': 2, 'thorough': 2}),
  # the aggregated value mentions only outer variables; the body has a predicate
  S('combine_outer_only_value', 'P(x, s) :- A(x), s == Sum{x :- Q(x, y)};\nP2(x, m) :- A(x), m Max= (x * 10 :- Q(x, y));\n'
    'P3(x, c) :- A(x), c == Sum{1 :- Q(x, y)};', {'A': 1, 'Q': 2},
    {'P': lambda db: [(x, _none_if_empty([x for (x2, y) in db['Q'] if x2 == x], sum)) for (x,) in db['A']],
     'P2': lambda db: [(x, _none_if_empty([x * 10 for (x2, y) in db['Q'] if x2 == x], max)) for (x,) in db['A']],
     'P3': lambda db: [(x, _none_if_empty([1 for (x2, y) in db['Q'] if x2 == x], sum)) for (x,) in db['A']]},
    tags=('C02',)),
  # distinct rules all of whose key columns are literals
  S('distinct_literal_keys', 'T("total", s? += y) distinct :- Q(x, y), x > 1;\nH("big") distinct :- Q(x, y), y > 0;\n'
    'L(label, s? += y) distinct :- Q(x, y), label == "all";', {'Q': 2},
    {'T': lambda db: [('total', sum(y for (x, y) in db['Q'] if x > 1))] if [1 for (x, y) in db['Q'] if x > 1] else [],
     'H': lambda db: [('big',)] if [1 for (x, y) in db['Q'] if y > 0] else [],
     'L': lambda db: [('all', sum(y for (x, y) in db['Q']))] if db['Q'] else []},
    tags=('C02',)),
  # a distinct (deduplicating) predicate read by a multiplicity-sensitive distinct caller
  S('distinct_callee_agg_caller', 'D(x) distinct :- Q(x, y);\nT(total? += x, biggest? Max= x) distinct :- D(x);\n'
    'N() += 1 :- D(x);', {'Q': 2},
    {'T': lambda db: [(sum({x for (x, y) in db['Q']}), max({x for (x, y) in db['Q']}))] if db['Q'] else [(None, None)],
     'N': lambda db: [(len({x for (x, y) in db['Q']}) or None,)]},
    tags=('C02', 'C08')),
  # an injectible predicate with a combine inside a combine whose innermost local variable has the
  # same name as a variable of the caller
  S('inject_nested_combine_capture',
    'Free(x, n) :- A(x), n == Sum{1 :- Q(x, z), ~R(z, y)};\nW(y, n) :- Free(y, n);\nW2(a, n) :- Free(a, n);',
    {'A': 1, 'Q': 2, 'R': 2},
    {'Free': lambda db: _free(db), 'W': lambda db: _free(db), 'W2': lambda db: _free(db)},
    tags=('C02', 'C08'), max_rows={'quick': 2, 'thorough': 2}),
  S('nested_combine', 'P(x, t) :- A(x), t == Sum{Max{z :- Q(y, z)} :- Q(x, y)};', {'Q': 2, 'A': 1},
    {'P': lambda db: [(x, _none_if_empty(nn([_none_if_empty([z for (y2, z) in db['Q'] if y2 == y], max)
                                             for (x2, y) in db['Q'] if x2 == x]), sum))
                      for (x,) in db['A']]}, tags=('C02',)),
  # negation nested in negation: an existence test, never a join
  S('double_negation', 'P(x) :- A(x), ~(~B(x));\nP2(x) :- A(x), ~(~Q(x, y));\nP3(x) :- A(x), ~(A(x), ~B(x));\n'
    'P4(x) :- A(x), ~(~(Q(x, y), B(y)));\nN(x) += 1 :- A(x), ~(~Q(x, y));\n'
    'L(x) :- A(x), Max{1 :- Max{1 :- B(x)} is null} is null;', {'A': 1, 'B': 1, 'Q': 2},
    {'P': lambda db: [(x,) for (x,) in db['A'] if [1 for (b,) in db['B'] if b == x]],
     'P2': lambda db: [(x,) for (x,) in db['A'] if [1 for (x2, y) in db['Q'] if x2 == x]],
     'P3': lambda db: [(x,) for (x,) in db['A'] if [1 for (b,) in db['B'] if b == x]],
     'P4': lambda db: [(x,) for (x,) in db['A'] if [1 for (x2, y) in db['Q'] if x2 == x for (b,) in db['B'] if b == y]],
     'N': lambda db: agg([(x, 1) for (x,) in db['A'] if [1 for (x2, y) in db['Q'] if x2 == x]],
                         lambda r: (r[0],), lambda r: r[1], sum),
     'L': lambda db: [(x,) for (x,) in db['A'] if [1 for (b,) in db['B'] if b == x]]},
    tags=('C02', 'C11'), max_rows={'quick': 2, 'thorough': 2}),
  # the same body (or fact) stated twice contributes twice to a non-idempotent aggregate
  S('multi_body_identical', 'V(x) += 1 :- A(x);\nV(x) += 1 :- A(x);\nW(x) += 1 :- A(x) | B(x) | A(x);\n'
    'Vf("a") += 1;\nVf("a") += 1;\nVf("b") += 1;\nLs(x) List= 7 :- A(x);\nLs(x) List= 7 :- A(x);', {'A': 1, 'B': 1},
    {'V': lambda db: agg([(x, 1) for (x,) in db['A']] * 2, lambda r: (r[0],), lambda r: r[1], sum),
     'W': lambda db: agg([(x, 1) for (x,) in db['A']] * 2 + [(x, 1) for (x,) in db['B']],
                         lambda r: (r[0],), lambda r: r[1], sum),
     'Vf': lambda db: [('a', 2), ('b', 1)],
     'Ls': lambda db: agg([(x, 7) for (x,) in db['A']] * 2, lambda r: (r[0],), lambda r: r[1], lambda vs: J(list(vs)))},
    tags=('C02',)),
  S('negation', 'P(x) :- A(x), ~B(x);\nP2(x) :- A(x), ~(Q(x, y), B(y));\nP3(x, y) :- Q(x, y), ~(x == y, B(x));',
    {'A': 1, 'B': 1, 'Q': 2},
    {'P': lambda db: [(x,) for (x,) in db['A'] if not [1 for (b,) in db['B'] if b == x]],
     'P2': lambda db: [(x,) for (x,) in db['A']
                       if not [1 for (x2, y) in db['Q'] if x2 == x for (b,) in db['B'] if b == y]],
     'P3': lambda db: [(x, y) for (x, y) in db['Q'] if not (x == y and [1 for (b,) in db['B'] if b == x])]},
    tags=('C02',), max_rows={'quick': 2, 'thorough': 2}),
  S('implication', 'P(x) :- A(x), (Q(x, y) => B(y));', {'A': 1, 'B': 1, 'Q': 2},
    {'P': lambda db: [(x,) for (x,) in db['A']
                      if all([1 for (b,) in db['B'] if b == y] for (x2, y) in db['Q'] if x2 == x)]},
    tags=('C02',), max_rows={'quick': 2, 'thorough': 2}),
  S('argmin_argmax', 'Lo(x) ArgMin= y -> z :- T(x, y, z);\nHi(x) ArgMax= y -> z :- T(x, y, z);', {'T': 3},
    {'Lo': lambda db: [(k[0], min(v, key=lambda p: p[1])[0]) for k, v in
                       _groups(db['T'], lambda r: (r[0],), lambda r: (r[1], r[2]))],
     'Hi': lambda db: [(k[0], max(v, key=lambda p: p[1])[0]) for k, v in
                       _groups(db['T'], lambda r: (r[0],), lambda r: (r[1], r[2]))]},
    tags=('C02',), db_filter='no_ties_T', domain=[0, 1], max_rows={'quick': 3, 'thorough': 4}),
]


def no_ties_T(db):
  seen = {}
  for (x, y, z) in db['T']:
    if seen.setdefault((x, y), z) != z:
      return False
  return True


DB_FILTERS = {'no_ties_T': no_ties_T, 'distinct_rows_T': lambda db: len(set(db['T'])) == len(db['T']) and len(db['T']) >= 3}


def _groups(rows, key, val):
  g = {}
  for r in rows:
    g.setdefault(key(r), []).append(val(r))
  return list(g.items())


def _free(db):
  return [(x, _none_if_empty([1 for (x2, z) in db['Q'] if x2 == x and not [1 for (z2, y) in db['R'] if z2 == z]], sum))
          for (x,) in db['A']]


def _sum(vs):
  return sum(vs) if vs else None


def _add(a, b):
  return None if a is None or b is None else a + b


def _mul(a, b):
  return None if a is None or b is None else a * b


def _none_if_empty(vs, fn):
  return fn(vs) if vs else None


def _top(rows, key, k=None, reverse=False):
  r = sorted(rows, key=key, reverse=reverse)
  return r if k is None else r[:k]


def _ol(pre, k):
  rows = lambda db: db['Q']
  return rows


ORDER = [
  S('order_asc', '@OrderBy(P, "col0", "col1");\nP(x, y) :- Q(x, y);\nR(x) :- P(x, y);', {'Q': 2},
    {'P': lambda db: _top(db['Q'], lambda r: (r[0], r[1])),
     'R': lambda db: [(x,) for (x, y) in db['Q']]}, tags=('C18',), ordered=('P',)),
  S('order_desc_arg', '@OrderBy(P, "col0", "DESC", "col1");\n@Limit(P, 2);\nP(x, y) :- Q(x, y);\nR(x, y) :- P(x, y);',
    {'Q': 2},
    {'P': lambda db: _top(db['Q'], lambda r: (-r[0], r[1]), 2),
     'R': lambda db: _top(db['Q'], lambda r: (-r[0], r[1]), 2)}, tags=('C18',), ordered=('P',)),
  S('order_desc_inline', '@OrderBy(P, "col0 desc", "col1 desc");\n@Limit(P, 1);\nP(x, y) :- Q(x, y);\nC() += 1 :- P(x, y);',
    {'Q': 2},
    {'P': lambda db: _top(db['Q'], lambda r: (-r[0], -r[1]), 1),
     'C': lambda db: [(min(len(db['Q']), 1) or None,)]}, tags=('C18',), ordered=('P',)),
  # the same with type checking switched on (CheckOrderByClause runs), directions written inside the key strings
  S('order_desc_typed', 'Q(1, 2); Q(3, 1); Q(2, 5); Q(3, 4); Q(0, 0);\n@OrderBy(P, "col0 desc", "col1");\n@Limit(P, 3);\n'
    'P(x, y) :- Q(x, y);\nR(x, y) :- P(x, y);\nM(x, y) order_by("col1 desc") limit(2) :- Q(x, y);\nRm(y) :- M(x, y);', {},
    {'P': lambda db: [(3, 1), (3, 4), (2, 5)], 'R': lambda db: [(3, 1), (3, 4), (2, 5)],
     'M': lambda db: [(2, 5), (3, 4)], 'Rm': lambda db: [(5,), (4,)]}, tags=('C18',), ordered=('P', 'M'), typed=True),
  S('limit_zero', '@OrderBy(P, "col0", "col1");\n@Limit(P, 0);\nP(x, y) :- Q(x, y);\nR(x) :- P(x, y);\n'
    '@Limit(L0, 0);\nL0(x) :- Q(x, y);\nR0(x) :- L0(x);', {'Q': 2},
    {'P': lambda db: [], 'R': lambda db: [], 'L0': lambda db: [], 'R0': lambda db: []}, tags=('C18',)),
  S('limit_five', '@OrderBy(P, "col1", "col0");\n@Limit(P, 5);\nP(x, y) :- Q(x, y);\nR(y) :- P(x, y), x > 0;',
    {'Q': 2},
    {'P': lambda db: _top(db['Q'], lambda r: (r[1], r[0]), 5),
     'R': lambda db: [(y,) for (x, y) in _top(db['Q'], lambda r: (r[1], r[0]), 5) if x > 0]},
    tags=('C18',), ordered=('P',), max_rows={'quick': 3, 'thorough': 4}, domain=[0, 1]),
  S('denotations', 'P(x, y) order_by("col0", "col1") limit(2) :- Q(x, y);\nR(x, y) :- P(x, y);\n'
    'D(x) order_by("col0 desc") limit(1) :- Q(x, y);', {'Q': 2},
    {'P': lambda db: _top(db['Q'], lambda r: (r[0], r[1]), 2),
     'R': lambda db: _top(db['Q'], lambda r: (r[0], r[1]), 2),
     'D': lambda db: _top([(x,) for (x, y) in db['Q']], lambda r: -r[0], 1)},
    tags=('C18',), ordered=('P', 'D')),
  S('order_union', '@OrderBy(P, "col0", "col1");\n@Limit(P, 3);\nP(x, y) :- Q(x, y);\nP(y, x) :- Q(x, y);\n'
    'R(x) :- P(x, y);', {'Q': 2},
    {'P': lambda db: _top(list(db['Q']) + [(y, x) for (x, y) in db['Q']], lambda r: (r[0], r[1]), 3),
     'R': lambda db: [(x,) for (x, y) in _top(list(db['Q']) + [(y, x) for (x, y) in db['Q']],
                                               lambda r: (r[0], r[1]), 3)]},
    tags=('C18',), ordered=('P',)),
  # several rules of which all but one are nil: the surviving disjunct keeps ORDER BY and LIMIT
  S('order_one_live_disjunct', '@OrderBy(P, "col0", "col1");\n@Limit(P, 1);\nP(a, b) :- nil(a, b);\n'
    'P(x, y) :- Q(x, y);\nR(x, y) :- P(x, y);', {'Q': 2},
    {'P': lambda db: _top(db['Q'], lambda r: (r[0], r[1]), 1),
     'R': lambda db: _top(db['Q'], lambda r: (r[0], r[1]), 1)}, tags=('C18',), ordered=('P',)),
  S('order_named', '@OrderBy(P, "b", "a desc");\n@Limit(P, 2);\nP(a: x, b: y) :- Q(x, y);\nR(u) :- P(a: u);',
    {'Q': 2},
    {'P': lambda db: _top(db['Q'], lambda r: (r[1], -r[0]), 2),
     'R': lambda db: [(x,) for (x, y) in _top(db['Q'], lambda r: (r[1], -r[0]), 2)]},
    tags=('C18',), ordered=('P',)),
]

def _negB(db, x):
  return not [1 for (b,) in db['B'] if b == x]


_Q = lambda db: list(db['Q'])
_maxq = lambda db: [(x, _none_if_empty([y for (x2, y) in db['Q'] if x2 == x], max)) for (x,) in db['A']]

SUGAR = [
  # each schema states one documented equivalence: both predicates have the same spec
  S('sugar_positional', 'P(x, y) :- Q(x, y);\nL(a, b) :- P(col0: a, col1: b);\nS(a, b) :- P(a, b);\n'
    '@NoInject(PN);\nPN(x, y) :- Q(x, y);\nLN(a, b) :- PN(col0: a, col1: b);\nM(b) :- P(col1: b);', {'Q': 2},
    {'L': _Q, 'S': _Q, 'LN': _Q, 'M': lambda db: [(y,) for (x, y) in db['Q']]}, tags=('C11',)),
  S('sugar_field_shorthand', 'P(a: x, b: y) :- Q(x, y);\nS(a, b) :- P(a:, b:);\nL(a, b) :- P(a: a, b: b);',
    {'Q': 2}, {'S': _Q, 'L': _Q}, tags=('C11',)),
  S('sugar_value', 'F(x) = y :- Q(x, y);\nFL(x, logica_value: y) :- Q(x, y);\n'
    'G(x, F(x)) :- A(x);\nGL(x, v) :- A(x), F(x, logica_value: v);\nGM(x, FL(x)) :- A(x);', {'Q': 2, 'A': 1},
    {'F': _Q, 'FL': _Q,
     'G': lambda db: [(x, y) for (x,) in db['A'] for (x2, y) in db['Q'] if x2 == x],
     'GL': lambda db: [(x, y) for (x,) in db['A'] for (x2, y) in db['Q'] if x2 == x],
     'GM': lambda db: [(x, y) for (x,) in db['A'] for (x2, y) in db['Q'] if x2 == x]},
    cols={'F': ['col0', 'logica_value'], 'FL': ['col0', 'logica_value']}, tags=('C11',)),
  S('sugar_eq', 'S(x) :- Q(x, y), x = y;\nL(x) :- Q(x, y), x == y;\nS2(x, z) :- Q(x, y), z = x + y;\n'
    'L2(x, z) :- Q(x, y), z == x + y;', {'Q': 2},
    {'S': lambda db: [(x,) for (x, y) in db['Q'] if x == y], 'L': lambda db: [(x,) for (x, y) in db['Q'] if x == y],
     'S2': lambda db: [(x, x + y) for (x, y) in db['Q']], 'L2': lambda db: [(x, x + y) for (x, y) in db['Q']]},
    tags=('C11',)),
  S('sugar_negation', 'S(x) :- A(x), ~B(x);\nL(x) :- A(x), Max{1 :- B(x)} is null;\n'
    'SI(x) :- A(x), (Q(x, y) => B(y));\nLI(x) :- A(x), ~(Q(x, y), ~B(y));', {'A': 1, 'B': 1, 'Q': 2},
    {'S': lambda db: [(x,) for (x,) in db['A'] if _negB(db, x)],
     'L': lambda db: [(x,) for (x,) in db['A'] if _negB(db, x)],
     'SI': lambda db: [(x,) for (x,) in db['A'] if all(not _negB(db, y) for (x2, y) in db['Q'] if x2 == x)],
     'LI': lambda db: [(x,) for (x,) in db['A'] if all(not _negB(db, y) for (x2, y) in db['Q'] if x2 == x)]},
    tags=('C11',), max_rows={'quick': 2, 'thorough': 2}),
  S('sugar_implication_conj', 'S(x) :- A(x), (Q(x, y) => (B(y), C(y)));\nL(x) :- A(x), ~(Q(x, y), ~(B(y), C(y)));\n'
    'S2(x) :- A(x), ((Q(x, y), B(y)) => C(y));\nL2(x) :- A(x), ~(Q(x, y), B(y), ~C(y));',
    {'A': 1, 'B': 1, 'C': 1, 'Q': 2},
    {'S': lambda db: [(x,) for (x,) in db['A'] if all((y,) in db['B'] and (y,) in db['C'] for (x2, y) in db['Q'] if x2 == x)],
     'L': lambda db: [(x,) for (x,) in db['A'] if all((y,) in db['B'] and (y,) in db['C'] for (x2, y) in db['Q'] if x2 == x)],
     'S2': lambda db: [(x,) for (x,) in db['A'] if all((y,) in db['C'] for (x2, y) in db['Q'] if x2 == x and (y,) in db['B'])],
     'L2': lambda db: [(x,) for (x,) in db['A'] if all((y,) in db['C'] for (x2, y) in db['Q'] if x2 == x and (y,) in db['B'])]},
    tags=('C11', 'C02'), max_rows={'quick': 1, 'thorough': 2}, domain=[0, 1], cap={'quick': 300, 'thorough': 3000}),
  S('sugar_in_computed_lhs', 'S(x) :- A(x), x * x in [x, 1];\nL(x) :- A(x), (x * x == x | x * x == 1);\n'
    'S2(x, y) :- Q(x, y), x + y in [2, x * 2, 2];\nL2(x, y) :- Q(x, y), (x + y == 2 | x + y == x * 2 | x + y == 2);\n'
    'S3(x, c) :- A(x), c == Sum{1 :- 1 in [x, x * x]};', {'A': 1, 'Q': 2},
    {'S': lambda db: [(x,) for (x,) in db['A'] for c in (x, 1) if x * x == c],
     'L': lambda db: [(x,) for (x,) in db['A'] for c in (x, 1) if x * x == c],
     'S2': lambda db: [(x, y) for (x, y) in db['Q'] for c in (2, x * 2, 2) if x + y == c],
     'L2': lambda db: [(x, y) for (x, y) in db['Q'] for c in (2, x * 2, 2) if x + y == c],
     'S3': lambda db: [(x, _none_if_empty([1 for c in (x, x * x) if c == 1], sum)) for (x,) in db['A']]},
    tags=('C11', 'C01')),
  S('sugar_combine', 'C1(x, m) :- A(x), m Max= (y :- Q(x, y));\nC2(x, m) :- A(x), m == Max{y :- Q(x, y)};\n'
    'C3(x, m) :- A(x), m == (combine Max= y :- Q(x, y));', {'A': 1, 'Q': 2},
    {'C1': _maxq, 'C2': _maxq, 'C3': _maxq}, tags=('C11',)),
  S('sugar_in_list', 'S(x, y) :- Q(x, y), x in [0, 1];\nL(x, y) :- Q(x, y), (x == 0 | x == 1);\n'
    'SD(x) :- Q(x, y), y in [1, 1];\nLD(x) :- Q(x, y), (y == 1 | y == 1);', {'Q': 2},
    {'S': lambda db: [(x, y) for (x, y) in db['Q'] for c in (0, 1) if x == c],
     'L': lambda db: [(x, y) for (x, y) in db['Q'] for c in (0, 1) if x == c],
     'SD': lambda db: [(x,) for (x, y) in db['Q'] for c in (1, 1) if y == c],
     'LD': lambda db: [(x,) for (x, y) in db['Q'] for c in (1, 1) if y == c]}, tags=('C11',)),
  S('sugar_rules_vs_or', 'S(x) :- A(x);\nS(x) :- B(x);\nS(x) :- A(x);\nL(x) :- A(x) | B(x) | A(x);', {'A': 1, 'B': 1},
    {'S': lambda db: list(db['A']) + list(db['B']) + list(db['A']),
     'L': lambda db: list(db['A']) + list(db['B']) + list(db['A'])}, tags=('C11',)),
  S('sugar_head_agg', 'S(x) Max= y :- Q(x, y);\nL(x, logica_value? Max= y) distinct :- Q(x, y);\n'
    'S2(x) += y :- Q(x, y);\nL2(x, logica_value? += y) distinct :- Q(x, y);', {'Q': 2},
    {'S': lambda db: agg(db['Q'], lambda r: (r[0],), lambda r: r[1], max),
     'L': lambda db: agg(db['Q'], lambda r: (r[0],), lambda r: r[1], max),
     'S2': lambda db: agg(db['Q'], lambda r: (r[0],), lambda r: r[1], sum),
     'L2': lambda db: agg(db['Q'], lambda r: (r[0],), lambda r: r[1], sum)},
    cols={'S': ['col0', 'logica_value'], 'L': ['col0', 'logica_value']}, tags=('C11',)),
]

def iterate(step, n, preds):
  """n simultaneous applications of the rules (the operator T) starting from empty relations."""
  st = {p: [] for p in preds}
  for _ in range(n):
    st = step(st)
  return st


def _tc_step(db):
  return lambda st: {'TC': sorted(set(db['E']) | {(x, z) for (x, y) in st['TC'] for (y2, z) in db['E'] if y == y2})}


def _tc(db, depth):
  return iterate(_tc_step(db), depth + 1, ['TC'])['TC']


def _eo_step(db, bound):
  return lambda st: {'Even': sorted(set(db['Z']) | {(x + 1,) for (x,) in st['Odd'] if x < bound}),
                     'Odd': sorted({(x + 1,) for (x,) in st['Even'] if x < bound})}


def _tri_step(db, bound):
  def step(st):
    up = lambda rs: {(x + 1,) for (x,) in rs if x < bound}
    return {'A': sorted(set(db['Z']) | up(st['B']) | up(st['C'])),
            'B': sorted(up(st['A']) | up(st['C'])),
            'C': sorted(up(st['A']) | up(st['B']))}
  return step


def _wl_step(db):
  def step(st):
    pos = {x for (x, y) in db['E']} | {y for (x, y) in db['E']}
    return {'Win': sorted({(x,) for (x, y) in db['E'] if (y,) in st['Lose']}),
            'Lose': sorted({(x,) for x in pos if (x,) not in st['Win']})}
  return step


def _sp_step(db):
  def step(st):
    cand = {}
    for (x,) in db['Z']:
      cand.setdefault(x, []).append(0)
    d = dict(st['D'])
    for (x, y) in db['E']:
      if x in d:
        cand.setdefault(y, []).append(d[x] + 1)
    return {'D': sorted((k, min(v)) for k, v in cand.items())}
  return step


TCP = 'TC(x, y) distinct :- E(x, y);\nTC(x, z) distinct :- TC(x, y), E(y, z);\n'

RECURSION = [
  S('rec_tc_default', TCP + 'Reach(y) :- TC(0, y);', {'E': 2},
    {'TC': lambda db: _tc(db, 8), 'Reach': lambda db: [(y,) for (x, y) in _tc(db, 8) if x == 0]},
    tags=('C03',), max_rows={'quick': 3, 'thorough': 4}, cap={'quick': 120, 'thorough': 1500}),
  S('rec_tc_depth1', '@Recursive(TC, 1);\n' + TCP, {'E': 2}, {'TC': lambda db: _tc(db, 1)},
    tags=('C03',), max_rows={'quick': 3, 'thorough': 4}, cap={'quick': 120, 'thorough': 1500}),
  S('rec_tc_depth2', '@Recursive(TC, 2);\n' + TCP, {'E': 2}, {'TC': lambda db: _tc(db, 2)},
    tags=('C03',), max_rows={'quick': 3, 'thorough': 4}, domain=[0, 1, 2, 3], cap={'quick': 120, 'thorough': 1500}),
  # mutual recursion whose cycle is cut by one predicate (vertical unfolding): result within the bound
  # contains everything derivable and nothing outside the least fixpoint; bounds chosen so that it converges
  S('rec_even_odd', 'Even(x) distinct :- Z(x);\nEven(x + 1) distinct :- Odd(x), x < 4;\n'
    'Odd(x + 1) distinct :- Even(x), x < 4;', {'Z': 1},
    {'Even': lambda db: iterate(_eo_step(db, 4), 12, ['Even', 'Odd'])['Even'],
     'Odd': lambda db: iterate(_eo_step(db, 4), 12, ['Even', 'Odd'])['Odd']},
    tags=('C03',), domain=[0, 1, 3]),
  S('rec_even_odd_bag', 'Even(x) :- Z(x);\nEven(x + 1) :- Odd(x), x < 3;\nOdd(x + 1) :- Even(x), x < 3;', {'Z': 1},
    {'Even': lambda db: [(x + k,) for (x,) in db['Z'] for k in (0, 2, 4) if k == 0 or x + k - 1 < 3 and all(x + j < 3 for j in range(k))],
     'Odd': lambda db: [(x + k,) for (x,) in db['Z'] for k in (1, 3) if all(x + j < 3 for j in range(k))]},
    tags=('C03',), domain=[0, 1, 3]),
  # three predicates, every pair on a cycle: no single predicate cuts the cover (flat unfolding):
  # exactly depth+1 simultaneous applications
  S('rec_triangle_depth2', '@Recursive(A, 2);\nA(x) distinct :- Z(x);\nA(x + 1) distinct :- B(x), x < 9;\n'
    'A(x + 1) distinct :- C(x), x < 9;\nB(x + 1) distinct :- A(x), x < 9;\nB(x + 1) distinct :- C(x), x < 9;\n'
    'C(x + 1) distinct :- A(x), x < 9;\nC(x + 1) distinct :- B(x), x < 9;', {'Z': 1},
    {'A': lambda db: iterate(_tri_step(db, 9), 3, 'ABC')['A'],
     'B': lambda db: iterate(_tri_step(db, 9), 3, 'ABC')['B'],
     'C': lambda db: iterate(_tri_step(db, 9), 3, 'ABC')['C']},
    tags=('C03',), domain=[0, 2]),
  S('rec_triangle_default', 'A(x) distinct :- Z(x);\nA(x + 1) distinct :- B(x), x < 9;\n'
    'A(x + 1) distinct :- C(x), x < 9;\nB(x + 1) distinct :- A(x), x < 9;\nB(x + 1) distinct :- C(x), x < 9;\n'
    'C(x + 1) distinct :- A(x), x < 9;\nC(x + 1) distinct :- B(x), x < 9;', {'Z': 1},
    {'A': lambda db: iterate(_tri_step(db, 9), 9, 'ABC')['A'],
     'C': lambda db: iterate(_tri_step(db, 9), 9, 'ABC')['C']},
    tags=('C03',), domain=[0, 2], max_rows={'quick': 1, 'thorough': 2}),
  S('rec_shortest_path', 'D(x) Min= 0 :- Z(x);\nD(y) Min= D(x) + 1 :- E(x, y);', {'Z': 1, 'E': 2},
    {'D': lambda db: iterate(_sp_step(db), 9, ['D'])['D']},
    tags=('C03',), max_rows={'quick': 2, 'thorough': 3}, cap={'quick': 150, 'thorough': 1500}),
  # deep recursion switches to iterative execution (@Iteration, run as a workflow)
  S('rec_iter_chain21', '@Recursive(N, 21);\nN(x) distinct :- Z(x);\nN(x + 1) distinct :- N(x);', {'Z': 1},
    {'N': lambda db: sorted({(x + k,) for (x,) in db['Z'] for k in range(22)})},
    tags=('C03', 'C14'), workflow=True, max_rows={'quick': 1, 'thorough': 2}),
  S('rec_iter_chain22', '@Recursive(N, 22);\nN(x) distinct :- Z(x);\nN(x + 1) distinct :- N(x);', {'Z': 1},
    {'N': lambda db: sorted({(x + k,) for (x,) in db['Z'] for k in range(23)})},
    tags=('C03', 'C14'), workflow=True, max_rows={'quick': 1, 'thorough': 2}),
  S('rec_iter_tc25', '@Recursive(TC, 25);\n' + TCP, {'E': 2}, {'TC': lambda db: _tc(db, 25)},
    tags=('C03', 'C14'), workflow=True, max_rows={'quick': 2, 'thorough': 3}, cap={'quick': 30, 'thorough': 200}),
  S('rec_iter_even_odd23', '@Recursive(Even, 23);\nEven(x) distinct :- Z(x);\nEven(x + 1) distinct :- Odd(x);\n'
    'Odd(x + 1) distinct :- Even(x);', {'Z': 1},
    {'Even': lambda db: sorted({(x + k,) for (x,) in db['Z'] for k in range(0, 24, 2)}),
     'Odd': lambda db: sorted({(x + k,) for (x,) in db['Z'] for k in range(1, 24, 2)})},
    tags=('C03', 'C14'), workflow=True, max_rows={'quick': 1, 'thorough': 1}, together=True),
  # recursion through negation (a non-monotone operator is still iterated depth+1 times from empty)
  S('rec_negation_win', 'Win(x) distinct :- E(x, y), ~Win(y);', {'E': 2},
    {'Win': lambda db: iterate(lambda st: {'Win': sorted({(x,) for (x, y) in db['E'] if (y,) not in st['Win']})}, 9, ['Win'])['Win']},
    tags=('C03',), max_rows={'quick': 3, 'thorough': 4}, cap={'quick': 120, 'thorough': 1500}),
  # the @Recursive annotation sits on a member that is not the first of its component
  S('rec_triangle_annotated_last', '@Recursive(C, 2);\nA(x) distinct :- Z(x);\nA(x + 1) distinct :- B(x), x < 9;\n'
    'A(x + 1) distinct :- C(x), x < 9;\nB(x + 1) distinct :- A(x), x < 9;\nB(x + 1) distinct :- C(x), x < 9;\n'
    'C(x + 1) distinct :- A(x), x < 9;\nC(x + 1) distinct :- B(x), x < 9;', {'Z': 1},
    {'A': lambda db: iterate(_tri_step(db, 9), 3, 'ABC')['A'],
     'C': lambda db: iterate(_tri_step(db, 9), 3, 'ABC')['C']},
    tags=('C03',), domain=[0, 2]),
  S('rec_chain_annotated_second', '@Recursive(Odd, 12);\nEven(x) distinct :- Z(x);\nEven(x + 1) distinct :- Odd(x), x < 12;\n'
    'Odd(x + 1) distinct :- Even(x), x < 12;', {'Z': 1},
    {'Even': lambda db: iterate(_eo_step(db, 12), 30, ['Even', 'Odd'])['Even'],
     'Odd': lambda db: iterate(_eo_step(db, 12), 30, ['Even', 'Odd'])['Odd']},
    tags=('C03',), domain=[0]),
  # iterative execution requested explicitly for a small depth (known finding: overshoots)
  S('rec_iter_forced_depth2', '@Recursive(N, 2, iterative: true);\nN(x) distinct :- Z(x);\nN(x + 1) distinct :- N(x);',
    {'Z': 1}, {'N': lambda db: sorted({(x + k,) for (x,) in db['Z'] for k in range(3)})},
    tags=('C03',), workflow=True, max_rows={'quick': 1, 'thorough': 1}, domain=[0]),
  # bag-valued mutual recursion, cover of two without an auxiliary predicate, odd deep depth
  S('rec_iter_even_odd_bag21', '@Recursive(Even, 21);\nEven(x) :- Z(x);\nEven(x + 1) :- Odd(x);\nOdd(x + 1) :- Even(x);',
    {'Z': 1},
    {'Even': lambda db: [(x + k,) for (x,) in db['Z'] for k in range(0, 22, 2)],
     'Odd': lambda db: [(x + k,) for (x,) in db['Z'] for k in range(1, 22, 2)]},
    tags=('C03', 'C14'), workflow=True, max_rows={'quick': 1, 'thorough': 2}),
]

_f3 = lambda rows: [(((x + 1) * 10),) for (x,) in rows]

FUNCTORS = [
  # argument reached through a chain of two intermediate predicates; applied twice with different
  # bindings and once more with an equal binding (cache of instantiated predicates)
  S('functor_chain', 'K(x) :- A(x);\nM(x + 1) :- K(x);\nF(x * 10) :- M(x);\n'
    'N1 := F(A: B);\nN2 := F(A: C);\nN3 := F(A: B);', {'A': 1, 'B': 1, 'C': 1},
    {'F': lambda db: _f3(db['A']), 'N1': lambda db: _f3(db['B']), 'N2': lambda db: _f3(db['C']),
     'N3': lambda db: _f3(db['B']), 'M': lambda db: [(x + 1,) for (x,) in db['A']], 'K': lambda db: list(db['A'])},
    tags=('C04',), max_rows={'quick': 2, 'thorough': 2}, cap={'quick': 150, 'thorough': 1500}),
  S('functor_two_args', 'G(x, y) :- A(x), B(y), x < y;\nH := G(A: C, B: A);\nH2 := G(B: C);', {'A': 1, 'B': 1, 'C': 1},
    {'G': lambda db: [(x, y) for (x,) in db['A'] for (y,) in db['B'] if x < y],
     'H': lambda db: [(x, y) for (x,) in db['C'] for (y,) in db['A'] if x < y],
     'H2': lambda db: [(x, y) for (x,) in db['A'] for (y,) in db['C'] if x < y]},
    tags=('C04',), max_rows={'quick': 2, 'thorough': 2}, cap={'quick': 150, 'thorough': 1500}),
  # a functor applied to a functor result; the outer made name sorts before the inner one
  S('functor_of_functor', 'F(x) :- X(x), W(x);\nB1 := F(X: Z);\nG(x) :- B1(x) | W(x);\nA2 := G(W: V);',
    {'X': 1, 'W': 1, 'Z': 1, 'V': 1},
    {'F': lambda db: [(x,) for (x,) in db['X'] for (w,) in db['W'] if w == x],
     'B1': lambda db: [(x,) for (x,) in db['Z'] for (w,) in db['W'] if w == x],
     'G': lambda db: [(x,) for (x,) in db['Z'] for (w,) in db['W'] if w == x] + list(db['W']),
     'A2': lambda db: [(x,) for (x,) in db['Z'] for (w,) in db['V'] if w == x] + list(db['V'])},
    tags=('C04',), max_rows={'quick': 1, 'thorough': 2}, domain=[0, 1], cap={'quick': 200, 'thorough': 1500}),
  # bindings whose values are also arguments (swap / shift): the substitution is simultaneous
  S('functor_swap', 'Diff(x) :- A(x), ~B(x);\nSwap := Diff(A: B, B: A);\nShift := Diff(A: B, B: C);', {'A': 1, 'B': 1, 'C': 1},
    {'Diff': lambda db: [(x,) for (x,) in db['A'] if (x,) not in db['B']],
     'Swap': lambda db: [(x,) for (x,) in db['B'] if (x,) not in db['A']],
     'Shift': lambda db: [(x,) for (x,) in db['B'] if (x,) not in db['C']]},
    tags=('C04',), max_rows={'quick': 2, 'thorough': 2}, cap={'quick': 150, 'thorough': 1500}),
  # a functor result used at distance two by a later application
  S('functor_distance_two', 'K(x) :- A(x);\nCc(x + 1) :- K(x);\nD := Cc(A: Z);\nEe(x) :- D(x);\n'
    'G(x) :- Ee(x) | Z(x);\nH := G(Z: W);', {'A': 1, 'Z': 1, 'W': 1},
    {'D': lambda db: [(x + 1,) for (x,) in db['Z']], 'G': lambda db: [(x + 1,) for (x,) in db['Z']] + list(db['Z']),
     'H': lambda db: [(x + 1,) for (x,) in db['W']] + list(db['W'])},
    tags=('C04',), max_rows={'quick': 2, 'thorough': 2}, cap={'quick': 150, 'thorough': 1500}),
  # the functor reaches another made predicate only through an intermediate; names sort adversarially
  S('functor_indirect_made', 'G(x + 1000) :- Y(x);\nM := G(Y: X);\nHh(x) :- M(x);\nF(x) :- Hh(x) | X(x);\nB := F(X: A2);',
    {'X': 1, 'Y': 1, 'A2': 1},
    {'M': lambda db: [(x + 1000,) for (x,) in db['X']],
     'F': lambda db: [(x + 1000,) for (x,) in db['X']] + list(db['X']),
     'B': lambda db: [(x + 1000,) for (x,) in db['A2']] + list(db['A2'])},
    tags=('C04', 'C07'), max_rows={'quick': 2, 'thorough': 2}, cap={'quick': 150, 'thorough': 1500}),
  # the argument is mentioned inside a list literal of an intermediate predicate and directly by the functor
  S('functor_arg_in_list_literal', 'Lo() = 1;\nHi() = 3;\nMid(x) :- A(x), x in [Lo(), Hi()];\n'
    'F(x) :- Mid(x) | (A(x), x == Lo() + 10);\nTwo() = 2;\nN := F(Lo: Two);', {'A': 1},
    {'F': lambda db: [(x,) for (x,) in db['A'] for e in (1, 3) if x == e] + [(x,) for (x,) in db['A'] if x == 11],
     'N': lambda db: [(x,) for (x,) in db['A'] for e in (2, 3) if x == e] + [(x,) for (x,) in db['A'] if x == 12],
     'Mid': lambda db: [(x,) for (x,) in db['A'] for e in (1, 3) if x == e]},
    tags=('C04',), domain=[1, 2, 3, 11, 12]),
  # the functor and the predicate it is built from both carry row-affecting annotations of the same kinds
  S('functor_annotated_pair', '@OrderBy(Base, "col0 desc");\n@Limit(Base, 3);\nBase(x) :- Src(x);\n'
    '@OrderBy(F, "col0");\n@Limit(F, 2);\nF(x) :- Base(x);\nG := F(Src: Alt);\nOut(x) :- G(x);\nOutF(x) :- F(x);',
    {'Src': 1, 'Alt': 1},
    {'Out': lambda db: [(x,) for x in sorted(sorted([x for (x,) in db['Alt']], reverse=True)[:3])[:2]],
     'OutF': lambda db: [(x,) for x in sorted(sorted([x for (x,) in db['Src']], reverse=True)[:3])[:2]]},
    tags=('C04', 'C18'), dbs=[{'Src': [(1,), (2,), (3,), (4,), (5,)], 'Alt': [(10,), (20,), (30,), (40,), (50,)]},
                              {'Src': [(5,), (1,), (4,)], 'Alt': [(7,), (9,), (8,), (6,)]},
                              {'Src': [(1,)], 'Alt': []}]),
  S('functor_constant_arg', 'Lim() = 0;\nP(x) :- A(x), x > Lim();\nQ := P(Lim: 1);\nR := P(Lim: 1);', {'A': 1},
    {'P': lambda db: [(x,) for (x,) in db['A'] if x > 0], 'Q': lambda db: [(x,) for (x,) in db['A'] if x > 1],
     'R': lambda db: [(x,) for (x,) in db['A'] if x > 1]}, tags=('C04',)),
  S('functor_shared_helper', 'H(x) :- A(x), x > 0;\nF(x, y) :- H(x), B(y);\nN1 := F(B: C);\nN2 := F(A: C);\n'
    'U(x) :- H(x);', {'A': 1, 'B': 1, 'C': 1},
    {'N1': lambda db: [(x, y) for (x,) in db['A'] if x > 0 for (y,) in db['C']],
     'N2': lambda db: [(x, y) for (x,) in db['C'] if x > 0 for (y,) in db['B']],
     'U': lambda db: [(x,) for (x,) in db['A'] if x > 0],
     'F': lambda db: [(x, y) for (x,) in db['A'] if x > 0 for (y,) in db['B']]},
    tags=('C04',), max_rows={'quick': 2, 'thorough': 2}, cap={'quick': 150, 'thorough': 1500}),
]

WORKFLOW = [
  # a grounded table read by two grounded consumers whose names sort before it (workflow order)
  S('wf_shared_ground', '@Ground(Nums);\n@Ground(Alt);\n@Ground(Big);\nNums(x) :- A(x);\nAlt(x + 10) :- Nums(x);\n'
    'Big(x * 2) :- Nums(x);\nQ(x) :- Alt(x) | Big(x);\nW(x) :- Big(x), Nums(x);', {'A': 1},
    {'Q': lambda db: [(x + 10,) for (x,) in db['A']] + [(x * 2,) for (x,) in db['A']],
     'W': lambda db: [(x * 2,) for (x,) in db['A'] for (y,) in db['A'] if y == x * 2]},
    tags=('C14', 'C17'), workflow=True, together=True),
  S('wf_ground_chain', '@Ground(G1);\n@Ground(G2);\nG1(x, y) :- Q(x, y);\nG2(x) distinct :- G1(x, y);\n'
    'Top(x, c) :- G2(x), c == Sum{1 :- G1(x, z)};', {'Q': 2},
    {'Top': lambda db: [(x, len([1 for (x2, y) in db['Q'] if x2 == x])) for x in {x for (x, y) in db['Q']}],
     'G2': lambda db: [(x,) for x in {x for (x, y) in db['Q']}]},
    tags=('C14', 'C17'), workflow=True, together=True, cap={'quick': 25, 'thorough': 200}),
  # three requested predicates, two of which are grounded intermediates of the third one's plan
  S('wf_requested_intermediates', '@Ground(Ga);\n@Ground(Gb);\n@Ground(Gc);\nGa(x) :- A(x), x > 0;\nGb(x + 1) :- A(x);\n'
    'Gc(x * 3) :- A(x);\nTop(x) :- Ga(x), Gb(x);\nAll3(x, y) :- Ga(x), Gb(y), Gc(x + y);', {'A': 1},
    {'Ga': lambda db: [(x,) for (x,) in db['A'] if x > 0],
     'Gb': lambda db: [(x + 1,) for (x,) in db['A']],
     'Gc': lambda db: [(x * 3,) for (x,) in db['A']],
     'Top': lambda db: [(x,) for (x,) in db['A'] if x > 0 for (y,) in db['A'] if y + 1 == x],
     'All3': lambda db: [(x, y + 1) for (x,) in db['A'] if x > 0 for (y,) in db['A'] for (z,) in db['A']
                         if z * 3 == x + y + 1]},
    tags=('C14', 'C17'), workflow=True, together=True),
]

import json as _json

LISTS = ['[]', '[1]', '[2,1]', '[3,1,2]', '[1,1]', '[0]', '[0,1,0]']
_ld = lambda l: _json.loads(l)


def _argk(rows, k, reverse):
  out = {}
  for (g, a, v) in rows:
    out.setdefault(g, []).append((v, a))
  return [(g, J([a for v, a in sorted(vs, reverse=reverse)][:k])) for g, vs in out.items()]


BUILTINS = [
  S('bi_range', 'R(n, Range(n)) :- N(n);\nRS(n, Size(Range(n))) :- N(n);\nRI(n, i) :- N(n), i in Range(n);\n'
    'RL(Range(0), Size(Range(0)));', {'N': 1},
    {'R': lambda db: [(n, J(list(range(n)))) for (n,) in db['N']],
     'RS': lambda db: [(n, len(range(n))) for (n,) in db['N']],
     'RI': lambda db: [(n, i) for (n,) in db['N'] for i in range(n)],
     'RL': lambda db: [('[]', 0)]}, tags=('C20',), domain=[0, 1, 2, 3]),
  S('bi_lists', 'Sz(l, Size(l)) :- L(l);\nEl(l, i, Element(l, i)) :- L(l), N(i), i < Size(l);\n'
    'Ix(l, i, l[i]) :- L(l), N(i), i < Size(l);\nIn(x, l) :- N(x), L(l), x in l;\nSo(l, Sort(l)) :- L(l);\n'
    'Cc(a, b, ArrayConcat(a, b)) :- L(a), L(b);\nJn(l, Join(l, "-")) :- L(l);\n'
    'Js(Join(["a", "", "b"], ","), Join(Range(4), "-"));', {'L': 1, 'N': 1},
    {'Sz': lambda db: [(l, len(_ld(l))) for (l,) in db['L']],
     'El': lambda db: [(l, i, _ld(l)[i]) for (l,) in db['L'] for (i,) in db['N'] if i < len(_ld(l))],
     'Ix': lambda db: [(l, i, _ld(l)[i]) for (l,) in db['L'] for (i,) in db['N'] if i < len(_ld(l))],
     'In': lambda db: [(x, l) for (x,) in db['N'] for (l,) in db['L'] for e in _ld(l) if e == x],
     'So': lambda db: [(l, J(sorted(_ld(l)))) for (l,) in db['L']],
     'Cc': lambda db: [(a, b, J(_ld(a) + _ld(b))) for (a,) in db['L'] for (b,) in db['L']],
     'Jn': lambda db: [(l, '-'.join(map(str, _ld(l)))) for (l,) in db['L']],
     'Js': lambda db: [('a,,b', '0-1-2-3')]},
    tags=('C20',), domains={'L': [(x,) for x in LISTS], 'N': [(0,), (1,), (2,)]}, max_rows={'quick': 2, 'thorough': 3},
    row_norm='json_compact'),
  S('bi_strings', 'Cat(a, b, a ++ b) :- W(a), W(b);\nSp(a, Split(a, ",")) :- W(a);\nTs(n, ToString(n)) :- N(n);\n'
    'Ti(ToInt64("12"), ToInt64("-3"));', {'W': 1, 'N': 1},
    {'Cat': lambda db: [(a, b, a + b) for (a,) in db['W'] for (b,) in db['W']],
     'Sp': lambda db: [(a, J(a.split(','))) for (a,) in db['W']],
     'Ts': lambda db: [(n, str(n)) for (n,) in db['N']], 'Ti': lambda db: [(12, -3)]},
    tags=('C20',), domains={'W': [('',), ('a',), ('b,a',), ('1',), ('20',), ('true',), ('[1]',)],
                            'N': [(-1,), (0,), (2,)]}, row_norm='json_compact'),
  S('bi_arith', 'A(x, y, x + y, x - y, x * y, -x) :- N(x), N(y);\nM(x, y, x % y) :- N(x), N(y), y > 0, x >= 0;\n'
    'G(x, y, Greatest(x, y), Least(x, y)) :- N(x), N(y);\n'
    'C(x, y, x < y, x <= y, x > y, x >= y, x == y, x != y) :- N(x), N(y);', {'N': 1},
    {'A': lambda db: [(x, y, x + y, x - y, x * y, -x) for (x,) in db['N'] for (y,) in db['N']],
     'M': lambda db: [(x, y, x % y) for (x,) in db['N'] for (y,) in db['N'] if y > 0 and x >= 0],
     'G': lambda db: [(x, y, max(x, y), min(x, y)) for (x,) in db['N'] for (y,) in db['N']],
     'C': lambda db: [(x, y, int(x < y), int(x <= y), int(x > y), int(x >= y), int(x == y), int(x != y))
                      for (x,) in db['N'] for (y,) in db['N']]},
    tags=('C20',), domain=[-1, 0, 1, 2]),
  # aggregates: every multiset of rows and every insertion order of the rows
  S('bi_aggregates', 'Sm(g) += v :- T(g, a, v);\nMn(g) Min= v :- T(g, a, v);\nMx(g) Max= v :- T(g, a, v);\n'
    'Av(g) Avg= v :- T(g, a, v);\nCt(g) Count= v :- T(g, a, v);\nLs(g) List= v :- T(g, a, v);\n'
    'St(g) Set= v :- T(g, a, v);', {'T': 3},
    {'Sm': lambda db: agg(db['T'], lambda r: (r[0],), lambda r: r[2], sum),
     'Mn': lambda db: agg(db['T'], lambda r: (r[0],), lambda r: r[2], min),
     'Mx': lambda db: agg(db['T'], lambda r: (r[0],), lambda r: r[2], max),
     'Av': lambda db: agg(db['T'], lambda r: (r[0],), lambda r: r[2], lambda v: sum(v) / len(v)),
     'Ct': lambda db: agg(db['T'], lambda r: (r[0],), lambda r: r[2], lambda v: len(set(v))),
     'Ls': lambda db: agg(db['T'], lambda r: (r[0],), lambda r: r[2], lambda v: J(sorted(v))),
     'St': lambda db: agg(db['T'], lambda r: (r[0],), lambda r: r[2], lambda v: J(sorted(set(v))))},
    tags=('C20', 'C07'), domains={'T': [(g, a, v) for g in (0, 1) for a in ('p', 'q') for v in (0, 2, 5)]},
    max_rows={'quick': 3, 'thorough': 4}, cap={'quick': 250, 'thorough': 3000}, row_norm='sort_json_lists',
    row_orders=True),
  S('bi_arg_aggregates', 'ArgMax2(x) = ArgMaxK(x, 2);\nArgMin2(x) = ArgMinK(x, 2);\nArgMin3(x) = ArgMinK(x, 3);\n'
    'Lo(g) ArgMin= a -> v distinct :- T(g, a, v);\nHi(g) ArgMax= a -> v distinct :- T(g, a, v);\n'
    'Lo2(g) ArgMin2= a -> v distinct :- T(g, a, v);\nHi2(g) ArgMax2= a -> v distinct :- T(g, a, v);\n'
    'Lo3(g) ArgMin3= a -> v distinct :- T(g, a, v);\nAr(g) Array= v -> a distinct :- T(g, a, v);', {'T': 3},
    {'Lo': lambda db: [(g, _ld(l)[0]) for (g, l) in _argk(db['T'], 1, False)],
     'Hi': lambda db: [(g, _ld(l)[0]) for (g, l) in _argk(db['T'], 1, True)],
     'Lo2': lambda db: _argk(db['T'], 2, False), 'Hi2': lambda db: _argk(db['T'], 2, True),
     'Lo3': lambda db: _argk(db['T'], 3, False), 'Ar': lambda db: _argk(db['T'], None, False)},
    tags=('C20', 'C07', 'C02'),
    dbs=[{'T': [(0, 'p', 50), (0, 'q', 40), (0, 'r', 30), (0, 's', 35), (0, 't', 10)]},
         {'T': [(0, 'p', 1), (0, 'q', 2), (0, 'r', 3), (1, 's', 4)]},
         {'T': [(0, 'p', 3), (0, 'q', 1)]}, {'T': []},
         # ordering values that are strings, negative numbers and zero
         {'T': [(0, 'p', 'pear'), (0, 'q', 'apple'), (0, 'r', 'zebra'), (1, 's', 'kiwi'), (1, 't', '2024-03-17')]},
         {'T': [(0, 'p', -5), (0, 'q', 0), (0, 'r', 3), (0, 's', -1)]}],
    row_orders=True, row_norm='json_compact'),
]

ALL = CORE + AGG + ORDER + SUGAR + RECURSION + FUNCTORS + WORKFLOW + BUILTINS
from . import lgen4 as _lgen4   # noqa: E402  (round-4 schemas; imports S, J, iterate from this module)
ALL = ALL + _lgen4.ROUND4
from . import lgen5 as _lgen5   # noqa: E402
ALL = ALL + _lgen5.ROUND5


def by_tag(tag):
  return [s for s in ALL if tag in s['tags']]
