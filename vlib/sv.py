"""Sorts and symbolic values for the Python-AST symbolic executor.

Every Python type of the verified subset maps to ONE z3 sort, so containers nest freely:
  int -> Int          bool -> Bool         str -> String        none -> (unit datatype)
  opt[T]   -> datatype  none | some(val:T)
  tuple[..]-> datatype  mk(f0,..)
  list[T]  -> datatype  mk(arr: Array Int T, len: Int)          (value semantics, len >= 0 assumed)
  set[T]   -> Array T Bool
  dict[K,V]-> datatype  mk(keys: Array K Bool, vals: Array K V)
  val      -> datatype  VInt(i) | VStr(s) | VBool(b) | VNone | VOther(id)   (a JSON-ish leaf)
  Name (capitalised) -> uninterpreted sort
`int` is mathematical.  `str` is a sequence of code points (z3 String).
"""
import z3


class Ty:
  __slots__ = ('kind', 'args')

  def __init__(self, kind, args=()):
    self.kind = kind
    self.args = tuple(args)

  def __eq__(self, o):
    return isinstance(o, Ty) and self.kind == o.kind and self.args == o.args

  def __hash__(self):
    return hash((self.kind, self.args))

  def __repr__(self):
    if self.args:
      return '%s[%s]' % (self.kind, ','.join(map(repr, self.args)))
    return self.kind


INT, BOOL, STR, NONE, VAL = Ty('int'), Ty('bool'), Ty('str'), Ty('none'), Ty('val')


def parse_type(s):
  s = s.replace(' ', '')
  t, rest = _pt(s)
  if rest:
    raise ValueError('bad type %r' % s)
  return t


def _pt(s):
  i = 0
  while i < len(s) and (s[i].isalnum() or s[i] == '_'):
    i += 1
  name, rest = s[:i], s[i:]
  args = []
  if rest.startswith('['):
    rest = rest[1:]
    while True:
      a, rest = _pt(rest)
      args.append(a)
      if rest.startswith(','):
        rest = rest[1:]
        continue
      if rest.startswith(']'):
        rest = rest[1:]
        break
      raise ValueError('bad type args %r' % s)
  if name in ('int', 'bool', 'str', 'none', 'val') and not args:
    return Ty(name), rest
  if name in ('opt', 'list', 'set', 'dict', 'tuple'):
    return Ty(name, args), rest
  if name == 'rec' and len(args) == 1:
    return Ty('rec', (args[0].args[0],)), rest
  if name and name[0].isupper() and not args:
    return Ty('U', (name,)), rest
  raise ValueError('unknown type %r' % s)


_sorts = {}
_aux = {}


def zsort(t):
  if t in _sorts:
    return _sorts[t]
  k = t.kind
  if k == 'int':
    s = z3.IntSort()
  elif k == 'bool':
    s = z3.BoolSort()
  elif k == 'str':
    s = z3.StringSort()
  elif k == 'none':
    d = z3.Datatype('NoneT')
    d.declare('None_')
    s = d.create()
  elif k == 'U':
    s = z3.DeclareSort(t.args[0])
  elif k == 'val':
    d = z3.Datatype('Val')
    d.declare('VInt', ('vint', z3.IntSort()))
    d.declare('VStr', ('vstr', z3.StringSort()))
    d.declare('VBool', ('vbool', z3.BoolSort()))
    d.declare('VNone')
    d.declare('VOther', ('vid', z3.IntSort()))
    s = d.create()
  elif k == 'opt':
    d = z3.Datatype('Opt_%s' % _mangle(t.args[0]))
    d.declare('none')
    d.declare('some', ('val', zsort(t.args[0])))
    s = d.create()
  elif k == 'tuple':
    d = z3.Datatype('Tup_%s' % '_'.join(_mangle(a) for a in t.args))
    d.declare('mk', *[('f%d' % i, zsort(a)) for i, a in enumerate(t.args)])
    s = d.create()
  elif k == 'list':
    d = z3.Datatype('List_%s' % _mangle(t.args[0]))
    d.declare('mk', ('arr', z3.ArraySort(z3.IntSort(), zsort(t.args[0]))), ('len', z3.IntSort()))
    s = d.create()
  elif k == 'set':
    s = z3.ArraySort(zsort(t.args[0]), z3.BoolSort())
  elif k == 'dict':
    d = z3.Datatype('Dict_%s_%s' % (_mangle(t.args[0]), _mangle(t.args[1])))
    d.declare('mk', ('keys', z3.ArraySort(zsort(t.args[0]), z3.BoolSort())),
              ('vals', z3.ArraySort(zsort(t.args[0]), zsort(t.args[1]))))
    s = d.create()
  else:
    raise ValueError('no sort for %r' % (t,))
  _sorts[t] = s
  return s


def _mangle(t):
  return repr(t).replace('[', '_').replace(']', '').replace(',', '_')


class V:
  """A symbolic value: type + z3 term."""
  __slots__ = ('t', 'z', 'meta')

  def __init__(self, t, z, meta=None):
    self.t = t
    self.z = z
    self.meta = meta

  def __repr__(self):
    return 'V(%r, %s)' % (self.t, self.z)


_fresh_n = [0]


def fresh_name(base):
  _fresh_n[0] += 1
  return '%s!%d' % (base, _fresh_n[0])


def fresh(t, base='v'):
  return V(t, z3.Const(fresh_name(base), zsort(t)))


def const(t, name):
  return V(t, z3.Const(name, zsort(t)))


def mk_int(n):
  return V(INT, z3.IntVal(n) if isinstance(n, int) else n)


def mk_bool(b):
  return V(BOOL, z3.BoolVal(b) if isinstance(b, bool) else b)


def mk_str(s):
  return V(STR, z3.StringVal(s) if isinstance(s, str) else s)


def mk_none():
  return V(NONE, zsort(NONE).None_)


# ---- list helpers -----------------------------------------------------------------------------

def l_arr(v):
  return zsort(v.t).arr(v.z)


def l_len(v):
  return zsort(v.t).len(v.z)


def mk_list(t, arr, ln):
  return V(t, zsort(t).mk(arr, ln))


def list_from_elems(t, elems):
  et = t.args[0]
  arr = z3.K(z3.IntSort(), default_z(et))
  for i, e in enumerate(elems):
    arr = z3.Store(arr, i, e.z)
  return mk_list(t, arr, z3.IntVal(len(elems)))


def default_z(t):
  k = t.kind
  if k == 'int':
    return z3.IntVal(0)
  if k == 'bool':
    return z3.BoolVal(False)
  if k == 'str':
    return z3.StringVal('')
  return z3.Const('default_%s' % _mangle(t), zsort(t))


# ---- dict / set helpers -----------------------------------------------------------------------

def d_keys(v):
  return zsort(v.t).keys(v.z)


def d_vals(v):
  return zsort(v.t).vals(v.z)


def mk_dict(t, keys, vals):
  return V(t, zsort(t).mk(keys, vals))


def empty_set_z(t):
  return z3.K(zsort(t.args[0]), z3.BoolVal(False))


# ---- opt helpers ------------------------------------------------------------------------------

def opt_none(t):
  return V(t, zsort(t).none)


def opt_some(t, v):
  return V(t, zsort(t).some(v.z))


def opt_is_none(v):
  return zsort(v.t).is_none(v.z)


def opt_val(v):
  return V(v.t.args[0], zsort(v.t).val(v.z))


# ---- tuple helpers ----------------------------------------------------------------------------

def mk_tuple(vals):
  t = Ty('tuple', [v.t for v in vals])
  return V(t, zsort(t).mk(*[v.z for v in vals]))


def tuple_get(v, i):
  s = zsort(v.t)
  return V(v.t.args[i], s.accessor(0, i)(v.z))


# ---- val helpers ------------------------------------------------------------------------------

def val_sort():
  return zsort(VAL)
