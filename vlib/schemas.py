"""Runs the schema contracts of a tag in a process pool and formats results for check.py."""
import multiprocessing
from . import lgen, run

_SCH = []
_TIER = 'quick'
_SEED = 0


def _one(i):
  return run.run_schema(_SCH[i], _TIER, _SEED)


def run_schemas(schemas, tier, seed, label):
  global _SCH, _TIER, _SEED
  _SCH, _TIER, _SEED = schemas, tier, seed
  with multiprocessing.get_context('fork').Pool(min(16, max(1, len(schemas)))) as pool:
    results = pool.map(_one, range(len(schemas)))
  out = {'name': label, 'evaluations': 0, 'distinct_nontrivial': 0, 'schemas': len(schemas),
         'exhaustive_schemas': 0, 'samples': [], 'violations': [],
         'rule': 'schema contracts (vlib/lgen.py): real compile + SQLite execution vs the spec '
                 'comprehension on every database with <= N rows per table over a 3-value domain '
                 '(seeded sample when the product exceeds the cap); non-trivial = expected result non-empty'}
  for s, r in zip(schemas, results):
    out['evaluations'] += r['evaluations']
    out['distinct_nontrivial'] += r['nontrivial']
    out['exhaustive_schemas'] += 1 if r['exhaustive'] else 0
    if r['sample'] and len(out['samples']) < 4:
      out['samples'].append(r['sample'])
    if r['violation']:
      v = r['violation']
      out['violations'].append({
          'key': '%s/schema[%s]' % (label, s['name']),
          'replay': {'obligation': '%s/schema[%s]/%s' % (label, s['name'], v.get('predicate')),
                     'clause': 'rows(%s) == spec(db)' % v.get('predicate'),
                     'solver': 'bounded back end (real compiler + SQLite)',
                     'input': {'program': s['text'], 'db': v.get('db')},
                     'native': {'case': {'program': s['text'], 'db': v.get('db')}, 'detail': v['detail'],
                                'clause': 'schema contract', 'sql': v.get('sql')},
                     'prop_replay': {'kind': 'schema', 'schema': s['name'], 'db': v.get('db'),
                                     'predicate': v.get('predicate')}}})
  return out


def replay_schema(spec, schemas):
  for s in schemas:
    if s['name'] == spec['schema']:
      r = run.run_schema(s, 'thorough')
      print('             schema', s['name'], '->', r['violation']['detail'] if r['violation'] else 'holds')
      return r['violation'] is None
  print('             schema not found')
  return True
