"""Objects of the repository's classes for the native back end, built through the *real* constructors
(then individual fields are overridden by the enumerators).  An object made with `__new__` lacks whatever
a later version of `__init__` adds, so a harmless refactoring would end in AttributeError inside the
harness -- a false alarm.  If a constructor's signature changes, the bare object is the fallback."""
import contextlib
import io


def _quiet(f):
  with contextlib.redirect_stdout(io.StringIO()):
    return f()


def annotations(mod):
  try:
    return _quiet(lambda: mod.Annotations([], {}))
  except Exception:
    return mod.Annotations.__new__(mod.Annotations)


def program(mod, text='@Engine("sqlite");\nVerifMkT(1);\n'):
  try:
    from vlib import rt
    parse = rt.repo_module('parser_py.parse')
    return _quiet(lambda: mod.LogicaProgram(parse.ParseFile(text)['rule']))
  except Exception:
    return mod.LogicaProgram.__new__(mod.LogicaProgram)


def functors(mod):
  try:
    return _quiet(lambda: mod.Functors([]))
  except Exception:
    return mod.Functors.__new__(mod.Functors)


def ql(mod, dialect=None):
  try:
    return _quiet(lambda: mod.QL({}, None, lambda msg, ctx=None: Exception(msg), {}, dialect=dialect))
  except Exception:
    q = mod.QL.__new__(mod.QL)
    q.dialect = dialect
    return q


def concertina(mod):
  class _E:
    def Run(self, action):
      pass
  try:
    return _quiet(lambda: mod.Concertina([], _E(), display_mode='silent'))
  except Exception:
    return mod.Concertina.__new__(mod.Concertina)
