"""Discharging obligations: z3 (API, deterministic rlimit) first, cvc5 CLI on z3's unknowns.

Verdict per obligation instance: proved / refuted(model) / unknown.  A *named* obligation is
proved iff every instance generated for it (one per path) is proved.
"""
import os
import subprocess
import tempfile
import time

import z3

from . import sv
from . import symex

RLIMIT = int(os.environ.get('VERIF_RLIMIT', '200000000'))
CVC5 = '/usr/bin/cvc5'
TIMEOUT_MS = int(os.environ.get('VERIF_TIMEOUT_MS', '120000'))


def order_axioms(sort_name):
  s = z3.DeclareSort(sort_name)
  lt = symex.uf('lt_%s' % sort_name, [s, s], z3.BoolSort())
  a, b, c = z3.Consts('a!o b!o c!o', s)
  return [z3.ForAll([a], z3.Not(lt(a, a))),
          z3.ForAll([a, b, c], z3.Implies(z3.And(lt(a, b), lt(b, c)), lt(a, c))),
          z3.ForAll([a, b], z3.Or(lt(a, b), lt(b, a), a == b))]


def list_axioms():
  """len(f(args)) >= 0 (and len(f(args)[i]) >= 0 for lists of lists) for every uninterpreted
  function that returns a Python list: a list never has a negative length.  Stated per function
  symbol (a quantifier over the list datatype itself would be inconsistent: mk(a, -1) is a term)."""
  out = []
  for name, (f, rett) in list(symex.LIST_UFS.items()):
    n = f.arity()
    xs = [z3.Const('a!%d' % i, f.domain(i)) for i in range(n)]
    app = f(*xs)
    srt = sv.zsort(rett)
    body = srt.len(app) >= 0
    if n:
      out.append(z3.ForAll(xs, body, patterns=[app]))
    else:
      out.append(body)
    if rett.args[0].kind == 'list':
      i = z3.Int('i!la')
      es = sv.zsort(rett.args[0])
      el = z3.Select(srt.arr(app), i)
      out.append(z3.ForAll(xs + [i], es.len(el) >= 0, patterns=[el]))
  return out


def check(ob, extra_axioms=(), want_model=True, rlimit=None):
  """Solves one obligation instance in-process with z3; falls back to cvc5 on unknown."""
  t0 = time.time()
  s = z3.Solver()
  s.set('rlimit', rlimit or RLIMIT)
  # rlimit is the deterministic budget; the wall-clock cap only guards against z3 phases that do
  # not count resources (seen with lambdas under quantifiers)
  s.set('timeout', 4000 if ob.expect in ('sat', 'sat-any') else TIMEOUT_MS)
  for a in extra_axioms:
    s.add(a)
  for a in list_axioms():
    s.add(a)
  for p in ob.pc:
    s.add(p)
  if ob.expect in ('sat', 'sat-any'):
    r = s.check()
    ob.backend = 'z3'
    ob.result = 'proved' if r == z3.sat else ('refuted' if r == z3.unsat else 'unknown')
    ob.time = time.time() - t0
    return ob.result
  s.add(z3.Not(ob.goal))
  # stage 1: z3 with a small deterministic budget; stage 2: cvc5 (far more stable on string
  # goals); stage 3: z3 with the full budget.  sat/unsat from any stage is final.
  s.set('rlimit', min(rlimit or RLIMIT, RLIMIT // 100))      # stage 1 is cheap: most obligations need far less
  r = s.check()
  ob.backend = 'z3'
  if r == z3.unknown:
    ob.reason = s.reason_unknown()
    smt2 = s.to_smt2()
    if '(lambda ' in smt2:
      # cvc5 1.0 does not read z3's array lambdas: give it the obligation without the hypotheses that contain one
      # (leaving hypotheses out is sound); a goal with a lambda stays with z3
      if '(lambda ' in z3.Not(ob.goal).sexpr():
        smt2 = None
      else:
        s_ = z3.Solver()
        for a in list(extra_axioms) + list_axioms() + list(ob.pc):
          if '(lambda ' not in a.sexpr():
            s_.add(a)
        s_.add(z3.Not(ob.goal))
        smt2 = s_.to_smt2()
    r2 = run_cvc5(smt2) if smt2 is not None else 'unknown'
    if r2 == 'unsat':
      ob.result, ob.backend = 'proved', 'cvc5'
      ob.time = time.time() - t0
      return ob.result
    if r2 == 'sat':
      ob.result, ob.backend = 'refuted', 'cvc5'
      ob.time = time.time() - t0
      return ob.result
    # stage 3: a small portfolio -- the obligations that are decided at all are decided within a second or two, and
    # whether z3 finds the instantiations depends on its random seed: several short runs beat one long run
    for seed_, share in ((0, 10), (7, 10), (23, 10), (101, 2)):
      s3 = z3.Solver()
      s3.set('random_seed', seed_)
      # budgets are resource counts (deterministic); the wall-clock caps are only guards and are wide enough for
      # a machine whose 16 cores are all busy (an obligation needing 2 s alone needs ~12 s then)
      s3.set('rlimit', (rlimit or RLIMIT) // share)
      s3.set('timeout', TIMEOUT_MS // 2)
      for a in s.assertions():
        s3.add(a)
      r = s3.check()
      if r != z3.unknown:
        s = s3
        break
  if r == z3.unsat:
    ob.result = 'proved'
  elif r == z3.sat:
    ob.result = 'refuted'
    try:
      ob.model = s.model()
    except z3.Z3Exception:
      ob.model = None
  else:
    ob.result = 'unknown'
    ob.reason = s.reason_unknown()
  ob.time = time.time() - t0
  return ob.result


def run_cvc5(smt2, timeout=40):
  if not os.path.exists(CVC5):
    return 'unknown'
  txt = '(set-logic ALL)\n' + smt2
  with tempfile.NamedTemporaryFile('w', suffix='.smt2', delete=False) as f:
    f.write(txt)
    path = f.name
  try:
    p = subprocess.run([CVC5, '--strings-exp', '--tlimit=%d' % (timeout * 1000), path],
                       capture_output=True, text=True, timeout=timeout + 5)
    out = p.stdout.strip().split('\n')[0] if p.stdout.strip() else 'unknown'
    return out if out in ('sat', 'unsat') else 'unknown'
  except Exception:
    return 'unknown'
  finally:
    os.unlink(path)


def model_value(m, v):
  """Concretises the symbolic value v under model m into a Python value (best effort)."""
  t = v.t
  k = t.kind
  ev = lambda z: m.eval(z, model_completion=True)
  try:
    if k == 'int':
      return ev(v.z).as_long()
    if k == 'bool':
      return z3.is_true(ev(v.z))
    if k == 'str':
      return ev(v.z).as_string()
    if k == 'none':
      return None
    if k == 'opt':
      if z3.is_true(ev(sv.opt_is_none(v))):
        return None
      return model_value(m, sv.opt_val(v))
    if k == 'tuple':
      return tuple(model_value(m, sv.tuple_get(v, i)) for i in range(len(t.args)))
    if k == 'list':
      n = ev(sv.l_len(v)).as_long()
      n = max(0, min(n, 12))
      return [model_value(m, sv.V(t.args[0], z3.Select(sv.l_arr(v), i))) for i in range(n)]
    if k == 'val':
      s = sv.val_sort()
      if z3.is_true(ev(s.is_VInt(v.z))):
        return ev(s.vint(v.z)).as_long()
      if z3.is_true(ev(s.is_VStr(v.z))):
        return ev(s.vstr(v.z)).as_string()
      if z3.is_true(ev(s.is_VBool(v.z))):
        return z3.is_true(ev(s.vbool(v.z)))
      if z3.is_true(ev(s.is_VNone(v.z))):
        return None
      return {'__other__': ev(s.vid(v.z)).as_long()}
    if k == 'U':
      return str(ev(v.z))
    return str(ev(v.z))
  except Exception as e:   # model evaluation is best effort
    return '<%s>' % type(e).__name__
