"""Structure scanner for emitted SQL (C09): a spec of "structurally well-formed", per dialect.

Checks on one statement: string literals and brackets balance under the dialect's lexical rules;
no comment token outside a literal; no compiler-internal placeholder in the text; every WITH table
is defined before it is used; every `alias.column` refers to an alias introduced by a FROM of an
enclosing query block (or a WITH name / attached-database table)."""
import re

from . import strhom

PLACEHOLDERS = [r'\{\d+\}', r'\{[a-z_]+\}', r'%s', r'%\(', r'\bUNUSED\b', r'DUMMY\(\)', r'\$\{', r'\bUNDEFINED_',
                r'# disambiguated']
KEYWORDS = {'select', 'from', 'where', 'group', 'by', 'as', 'and', 'or', 'not', 'union', 'all', 'with', 'in', 'is',
            'null', 'case', 'when', 'then', 'else', 'end', 'order', 'limit', 'desc', 'asc', 'on', 'join', 'cross',
            'unnest', 'cast', 'array', 'struct', 'row', 'distinct', 'over', 'partition', 'rows', 'between', 'exists',
            'values', 'create', 'table', 'drop', 'if', 'like', 'true', 'false', 'offset', 'lateral', 'json_each',
            'explode', 'recursive', 'having', 'except', 'current', 'preceding', 'unbounded', 'row', 'tuple'}


def tokens(sql, dialect):
  """Yields (kind, text, pos): kind in str, id, num, punct, open, close, comment."""
  lx = strhom.LEXERS[dialect]
  i, n = 0, len(sql)
  out = []
  while i < n:
    c = sql[i]
    if c.isspace():
      i += 1
      continue
    if sql.startswith('/*', i):
      j = sql.find('*/', i + 2)
      if j >= 0:            # a closed block comment (the compiler's `/* nil */` marker) is white space
        i = j + 2
        continue
    if sql.startswith('--', i) or sql.startswith('/*', i) or c == '#':
      out.append(('comment', sql[i:i + 2], i))
      j = sql.find('\n', i)
      i = n if j < 0 else j
      continue
    # string literals: the dialect's own opener first, then generic '...' / "..." / `...`
    if sql.startswith(lx.opener, i) and not (lx.opener[0].isalpha() and i > 0 and (sql[i - 1].isalnum() or sql[i - 1] == '_')):
      st, outp, end = lx.run(sql[i + len(lx.opener):])
      if st != strhom.DONE:
        out.append(('unterminated', sql[i:i + 20], i))
        return out
      j = i + len(lx.opener) + end
      out.append(('str', sql[i:j], i))
      i = j
      continue
    if c in '"`' or (c == "'" and lx.quote != "'"):
      j = sql.find(c, i + 1)
      if j < 0:
        out.append(('unterminated', sql[i:i + 20], i))
        return out
      out.append(('id' if c != "'" else 'str', sql[i:j + 1], i))
      i = j + 1
      continue
    if c in '([{':
      out.append(('open', c, i))
      i += 1
      continue
    if c in ')]}':
      out.append(('close', c, i))
      i += 1
      continue
    m = re.compile(r'[A-Za-z_][A-Za-z0-9_$]*').match(sql, i)
    if m:
      out.append(('id', m.group(0), i))
      i = m.end()
      continue
    m = re.compile(r'\d+(\.\d+)?').match(sql, i)
    if m:
      out.append(('num', m.group(0), i))
      i = m.end()
      continue
    out.append(('punct', c, i))
    i += 1
  return out


PAIR = {')': '(', ']': '[', '}': '{'}


def check(sql, dialect, with_names=()):
  """Returns a list of problems (empty = accepted)."""
  problems = []
  toks = tokens(sql, dialect)
  stack = []
  for k, t, p in toks:
    if k == 'unterminated':
      problems.append('string literal does not end: %r' % t)
      return problems
    if k == 'comment':
      problems.append('comment token %r in emitted SQL at %d: %r' % (t, p, sql[max(0, p - 20):p + 20]))
    if k == 'open':
      stack.append(t)
    if k == 'close':
      if not stack or stack[-1] != PAIR[t]:
        problems.append('bracket %r at %d matches nothing' % (t, p))
        return problems
      stack.pop()
  if stack:
    problems.append('unclosed bracket(s) %r' % ''.join(stack))
  # the compiler's stub for a rule proven empty (`/* nil */ SELECT NULL ... WHERE MONAD = 0`) is pruned from
  # unions of rules; as an arm of a UNION ALL it is a placeholder leak (and has the wrong number of columns)
  if re.search(r'UNION\s+ALL\s*/\* nil \*/', sql) or re.search(r'/\* nil \*/[^;]*?MONAD = 0\s*UNION\s+ALL', sql):
    problems.append('the `/* nil */` stub of a rule proven empty is left as an arm of a UNION ALL')
  code = ' '.join(t if k != 'str' else "''" for k, t, p in toks)
  # a clause keyword with nothing after it
  m = re.search(r'\b(WHERE|FROM|GROUP BY|ORDER BY|HAVING|ON)\s*(?=$|;|\)|\b(?:WHERE|GROUP|ORDER|LIMIT|UNION|HAVING)\b)', code)
  if m:
    problems.append('clause %s has no body' % m.group(1))
  for pat in PLACEHOLDERS:
    m = re.search(pat, code)
    if m:
      problems.append('placeholder %r leaks into the SQL' % m.group(0))
  problems += scoping(toks, with_names)
  return problems


def scoping(toks, with_names=()):
  """WITH tables defined before use; alias.column refers to an alias of an enclosing FROM."""
  problems = []
  # ---- WITH names in order of definition:  name AS (
  defined = list(with_names)
  for i in range(len(toks) - 2):
    k, t, p = toks[i]
    if k == 'id' and re.match(r't_\d+_', t) and toks[i + 1][1].lower() == 'as' and toks[i + 2][0] == 'open':
      defined.append((t, p))
  defpos = {}
  for t, p in defined:
    defpos.setdefault(t, p)
  for i, (k, t, p) in enumerate(toks):
    if k == 'id' and re.match(r't_\d+_', t):
      prev = toks[i - 1][1].lower() if i else ''
      nxt = toks[i + 1][1].lower() if i + 1 < len(toks) else ''
      is_ref = prev in ('from', ',', 'join') and nxt != '.' and \
          not (nxt == 'as' and i + 2 < len(toks) and toks[i + 2][0] == 'open')
      if is_ref and t not in defpos:
        # a table alias allocated as t_N_x (FROM T AS t_1_T) is not a WITH reference
        if not (i >= 2 and toks[i - 1][1].lower() == 'as'):
          problems.append('WITH table %s is used but never defined' % t)
      elif is_ref and defpos[t] > p:
        problems.append('WITH table %s is used before it is defined' % t)
  # ---- block structure: each open bracket starts a block; aliases introduced by `AS name` or by
  # a bare table name directly inside a block's FROM list are visible in that block and below
  blocks = [{'aliases': set(), 'parent': None}]
  cur = 0
  block_of = []
  for k, t, p in toks:
    if k == 'open':
      blocks.append({'aliases': set(), 'parent': cur})
      cur = len(blocks) - 1
      block_of.append(cur)
    elif k == 'close':
      block_of.append(cur)
      cur = blocks[cur]['parent'] if blocks[cur]['parent'] is not None else 0
    else:
      block_of.append(cur)
  in_from = {}
  for i, (k, t, p) in enumerate(toks):
    b = block_of[i]
    low = t.lower()
    if k == 'id' and low == 'from':
      in_from[b] = True
    elif k == 'id' and low in ('where', 'group', 'order', 'limit', 'union', 'select', 'having'):
      in_from[b] = False
    if k == 'id' and low == 'as' and i + 1 < len(toks) and toks[i + 1][0] == 'id':
      blocks[b]['aliases'].add(toks[i + 1][1])
      # pushkin(x) style: explode(...) AS pushkin(x)
    if in_from.get(b) and k == 'id' and low not in KEYWORDS:
      prev = toks[i - 1][1].lower() if i else ''
      if prev in ('from', ',', 'join', '.'):
        blocks[b]['aliases'].add(t)
  for i, (k, t, p) in enumerate(toks):
    if k == 'id' and i + 2 < len(toks) and toks[i + 1][1] == '.' and toks[i + 2][0] in ('id', 'punct') \
        and (i == 0 or toks[i - 1][1] != '.'):
      if t.lower() in KEYWORDS or t in ('logica_test', 'logica_home', 'default'):
        continue
      if i and toks[i - 1][1].lower() in ('from', 'join', ',', 'table', 'exists') and toks[i + 2][0] == 'id' \
          and (i + 3 >= len(toks) or toks[i + 3][1] != '.'):
        # dataset.table in a FROM list
        prev_from = toks[i - 1][1].lower() in ('from', 'join', 'table', 'exists')
        if prev_from:
          continue
      b = block_of[i]
      seen = False
      while b is not None:
        if t in blocks[b]['aliases']:
          seen = True
          break
        b = blocks[b]['parent']
      if not seen:
        problems.append('`%s.%s` refers to alias %s, which no enclosing FROM introduces' % (t, toks[i + 2][1], t))
  return problems
