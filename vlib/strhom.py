"""String-homomorphism decider for literal escaping (C10).

A chain  x.replace(c1, r1)....replace(cn, rn)  with one-character constant patterns is a monoid
homomorphism on strings (each step maps every character independently; a composition of
homomorphisms is one).  Hence  chain(s) == ''.join(chain(c) for c in s)  for every s, and the
image of each character is obtained by running the real chain on the 1-character string.
json.dumps(s, ensure_ascii=False) is a per-character map between the quotes as well (assumed;
cross-checked natively on multi-character strings by the bounded tier).

A dialect's string-literal lexer is a deterministic transducer: step(state, ch) -> (state, out).
Round trip and single-literal-ness for ALL strings follow from the per-character check
"from the base state, reading h(c) returns to the base state and outputs exactly c" plus the
check of the opening / closing delimiters.  The per-character check ranges over every special
character of chain and lexer and one representative per remaining class (quick) or over every
Unicode scalar value (thorough, and always for the json branch).
"""
import ast
import json

BASE, ESC, QUOTE, DONE, FAIL = 'base', 'esc', 'quote', 'done', 'fail'


class Lexer:
  """Table-driven literal lexer: open delimiter, quote char, escapes."""

  def __init__(self, name, opener, quote, doubled_quote, backslash, esc_table=None, esc_default=None,
               raw_forbidden='', unicode_escape=False, source=''):
    self.name = name
    self.opener = opener
    self.quote = quote
    self.doubled_quote = doubled_quote      # '' inside '...' means one quote
    self.backslash = backslash              # backslash starts an escape
    self.esc_table = esc_table or {}
    self.esc_default = esc_default          # 'char' (\c -> c), 'keep' (\c -> \c), None (error)
    self.raw_forbidden = raw_forbidden
    self.unicode_escape = unicode_escape
    self.source = source

  def specials(self):
    s = set(self.quote) | set(self.raw_forbidden)
    if self.backslash:
      s |= {'\\'} | set(self.esc_table) | set(''.join(self.esc_table.values())) | {'u'}
    return s

  def run(self, text, start_state=BASE):
    """Feeds text; returns (state, output, index where the literal ended or None)."""
    st = start_state
    out = []
    i = 0
    n = len(text)
    while i < n:
      c = text[i]
      if st == BASE:
        if self.backslash and c == '\\':
          st = ESC
        elif c == self.quote:
          st = QUOTE if self.doubled_quote else DONE
          if st == DONE:
            return DONE, ''.join(out), i + 1
        elif c in self.raw_forbidden:
          return FAIL, ''.join(out), None
        else:
          out.append(c)
      elif st == ESC:
        if self.unicode_escape and c == 'u':
          hx = text[i + 1:i + 5]
          if len(hx) < 4 or any(h not in '0123456789abcdefABCDEF' for h in hx):
            return FAIL, ''.join(out), None
          out.append(chr(int(hx, 16)))
          i += 4
        elif c in self.esc_table:
          out.append(self.esc_table[c])
        elif self.esc_default == 'char':
          out.append(c)
        elif self.esc_default == 'keep':
          out.append('\\' + c)
        else:
          return FAIL, ''.join(out), None
        st = BASE
      elif st == QUOTE:
        if c == self.quote:
          out.append(c)
          st = BASE
        else:
          return DONE, ''.join(out), i      # literal ended at the previous quote
      i += 1
    if st == QUOTE:
      return DONE, ''.join(out), n
    return st, ''.join(out), None


C_ESC = {'b': '\b', 'f': '\f', 'n': '\n', 'r': '\r', 't': '\t'}

LEXERS = {
    # '' is the only escape (SQLite; PostgreSQL with standard_conforming_strings=on; Presto; Trino)
    'SqLite': Lexer('sqlite', "'", "'", True, False, source='sqlite.org/lang_expr.html literal values'),
    'PostgreSQL': Lexer('postgresql', "'", "'", True, False, source='PostgreSQL 4.1.2.1, standard_conforming_strings=on'),
    'Presto': Lexer('presto', "'", "'", True, False, source='Presto/Trino language docs: string literals'),
    'Trino': Lexer('trino', "'", "'", True, False, source='Trino language docs: string literals'),
    # ClickHouse: backslash escapes and ''
    'ClickHouse': Lexer('clickhouse', "'", "'", True, True,
                        dict(C_ESC, **{'0': '\0', 'a': '\a', 'v': '\v', '\\': '\\', "'": "'", '"': '"',
                                       '`': '`', '/': '/', '=': '='}),
                        'keep', source='clickhouse.com/docs/en/sql-reference/syntax#string'),
    # DuckDB / PostgreSQL E'...': C-style escapes and ''
    'DuckDB': Lexer('duckdb-E', "E'", "'", True, True, dict(C_ESC, **{'\\': '\\', "'": "'"}), 'char',
                    source="DuckDB / PostgreSQL escape string constants E'...'"),
    # BigQuery "..." : backslash escapes, raw newline not allowed
    'BigQuery': Lexer('bigquery', '"', '"', False, True,
                      dict(C_ESC, **{'a': '\a', 'v': '\v', '\\': '\\', '?': '?', '"': '"', "'": "'", '`': '`'}),
                      None, raw_forbidden='\n\r', unicode_escape=True,
                      source='BigQuery lexical structure: string and bytes literals'),
    # Spark SQL / Databricks "..." : \b \t \n \r \0 \Z \\ \' \" \% \_ \uXXXX; other \c -> c
    'Databricks': Lexer('spark', '"', '"', False, True,
                        {'b': '\b', 't': '\t', 'n': '\n', 'r': '\r', '0': '\0', 'Z': '\x1a', '\\': '\\',
                         "'": "'", '"': '"', '%': '\\%', '_': '\\_'},
                        'char', unicode_escape=True, source='Spark SQL ParserUtils.unescapeSQLString'),
}

# characters for which the lexer spec itself is not trusted (stated exclusion, not a pass):
# Spark reads the JSON escape \f as the letter f according to my reading of unescapeSQLString;
# it cannot be executed offline, so U+000C is excluded for Databricks rather than reported.
EXCLUDED = {'Databricks': {'\f'}}


class Pattern:
  pass


def extract_branches(fn_node):
  """From the AST of QL.StrLiteral: [(dialect names or None, kind, data)] in source order.

  kind 'chain': data = (format string with one %s, [(pattern, replacement), ...])
  kind 'json' : data = None.   Raises ValueError when the body has another shape."""
  branches = []
  body = [s for s in fn_node.body if not (isinstance(s, ast.Expr) and isinstance(s.value, ast.Constant))]
  for st in body:
    if isinstance(st, ast.If):
      names = _dialect_names(st.test)
      if names is None or st.orelse or len(st.body) == 0:
        raise ValueError('unrecognised branch test at line %d' % st.lineno)
      rets = [x for x in st.body if isinstance(x, ast.Return)]
      if len(rets) != 1 or len([x for x in st.body if not isinstance(x, (ast.Return, ast.Expr))]) > 0:
        raise ValueError('branch body is not a single return at line %d' % st.lineno)
      branches.append((names,) + _return_shape(rets[0].value))
    elif isinstance(st, ast.Return):
      branches.append((None,) + _return_shape(st.value))
    else:
      raise ValueError('unexpected statement %s at line %d' % (type(st).__name__, st.lineno))
  return branches


def _dialect_names(test):
  if isinstance(test, ast.Compare) and len(test.ops) == 1 and isinstance(test.ops[0], (ast.In, ast.Eq)):
    l = test.left
    if isinstance(l, ast.Call) and isinstance(l.func, ast.Attribute) and l.func.attr == 'Name':
      c = test.comparators[0]
      try:
        v = ast.literal_eval(c)
      except Exception:
        return None
      return [v] if isinstance(v, str) else list(v)
  return None


def _is_the_string(n):
  return (isinstance(n, ast.Subscript) and isinstance(n.slice, ast.Constant) and
          n.slice.value == 'the_string' and isinstance(n.value, ast.Name))


def _return_shape(v):
  # json.dumps(literal['the_string'], ensure_ascii=False)
  if isinstance(v, ast.Call) and isinstance(v.func, ast.Attribute) and v.func.attr == 'dumps':
    kw = {k.arg: ast.literal_eval(k.value) for k in v.keywords}
    if len(v.args) == 1 and _is_the_string(v.args[0]) and kw == {'ensure_ascii': False}:
      return ('json', None)
    raise ValueError('json.dumps call of another shape')
  if isinstance(v, ast.BinOp) and isinstance(v.op, ast.Mod) and isinstance(v.left, ast.Constant) \
      and isinstance(v.left.value, str):
    fmt = v.left.value
    arg = v.right
    if isinstance(arg, ast.Tuple) and len(arg.elts) == 1:
      arg = arg.elts[0]
    chain = []
    while isinstance(arg, ast.Call) and isinstance(arg.func, ast.Attribute) and arg.func.attr == 'replace':
      if len(arg.args) != 2 or arg.keywords:
        raise ValueError('replace with other arguments')
      a, b = ast.literal_eval(arg.args[0]), ast.literal_eval(arg.args[1])
      chain.append((a, b))
      arg = arg.func.value
    if not _is_the_string(arg):
      raise ValueError('chain does not start at literal[the_string]')
    chain.reverse()
    if fmt.count('%s') != 1 or fmt.replace('%s', '').count('%') != 0:
      raise ValueError('format is not a single %s wrapper')
    return ('chain', (fmt, chain))
  raise ValueError('return expression of another shape: %s' % ast.dump(v)[:80])


def h_of(kind, data, c):
  if kind == 'json':
    return json.dumps(c, ensure_ascii=False)[1:-1]
  fmt, chain = data
  s = c
  for a, b in chain:
    s = s.replace(a, b)
  return s


def wrapper(kind, data):
  if kind == 'json':
    return '"', '"'
  fmt = data[0]
  i = fmt.index('%s')
  return fmt[:i], fmt[i + 2:]


def classes(kind, data, lexer, full):
  if full:
    return (chr(i) for i in range(0x110000) if not 0xD800 <= i <= 0xDFFF)
  cs = set(lexer.specials()) | {'a', 'Z', '0', ' ', '\n', '\t', '\r', '\f', '\b', '\0', '\x1a', '\x7f',
                                '"', "'", '`', '\\', '#', '/', '*', '(', ')', '[', ']', '{', '}', ',', ';',
                                ':', '|', '$', '%', '_', '?', '=', 'u', 'n', 't', 'é', '😀', ' ', 'E'}
  if kind == 'chain':
    for a, b in data[1]:
      cs |= set(a) | set(b)
  else:
    cs |= {chr(i) for i in range(0x20)}
  return sorted(cs)


def decide_dialect(dialect, kind, data, full):
  """Returns list of (obligation suffix, ok, witness) for one dialect."""
  lx = LEXERS[dialect]
  res = []
  if kind == 'chain':
    multi = [a for a, b in data[1] if len(a) != 1]
    res.append(('chain-is-homomorphism', not multi, {'multi-character patterns': multi} if multi else None))
    if multi:
      return res
  pre, suf = wrapper(kind, data)
  ok = pre == lx.opener
  res.append(('opens-literal', ok, None if ok else {'emitted prefix': pre, 'lexer expects': lx.opener}))
  bad_rt = None
  bad_end = None
  n = 0
  for c in classes(kind, data, lx, full):
    if c in EXCLUDED.get(dialect, ()):
      continue
    n += 1
    img = h_of(kind, data, c)
    st, out, end = lx.run(img)
    # the image must be consumed entirely inside the literal, give back c and return to BASE
    if st == QUOTE:
      # image ends in a doubled-quote lookahead state: a following quote would merge -- not allowed
      bad_end = bad_end or {'char': c, 'emitted': img, 'lexer state': st}
    if st != BASE or out != c:
      if bad_rt is None:
        bad_rt = {'char': c, 'codepoint': 'U+%04X' % ord(c), 'emitted': img, 'decoded': out, 'lexer state': st}
  res.append(('round-trip-per-character', bad_rt is None, bad_rt))
  res.append(('image-stays-inside-literal', bad_end is None, bad_end))
  st, out, end = lx.run(suf)
  ok = st == DONE and end == len(suf) and out == ''
  res.append(('closes-literal', ok, None if ok else {'emitted suffix': suf, 'lexer': (st, out, end)}))
  res.append(('classes', True, {'characters checked': n}))
  return res
