"""Mechanical extraction of the verified text from /repo's current working tree.

Every run re-reads the file, parses it with `ast`, and locates the unit by qualified name
(`Func`, `Class.method`, `Func.<inner>`).  Nothing is copied by hand: the AST node returned here is
what the symbolic executor walks.  What extraction drops is fixed and reported:
  * docstrings, comments, type annotations (no run-time meaning)
  * statements that are calls to names listed in the unit's `drop_calls` (display / print code);
    for those the frame check `assert_no_writes` makes sure the dropped statement is an expression
    statement (so it binds nothing in the unit).
"""
import ast
import hashlib
import os

REPO = os.environ.get('VERIF_REPO', '/repo')


class ExtractError(Exception):
  pass


_cache = {}


def parse_file(rel):
  path = os.path.join(REPO, rel)
  st = os.stat(path)
  key = (path, st.st_mtime_ns, st.st_size)
  if key not in _cache:
    with open(path, encoding='utf-8') as f:
      src = f.read()
    _cache[key] = (src, ast.parse(src, filename=path))
  return _cache[key]


def find(rel, qualname):
  """Returns (node, source_text, info) for the function `qualname` of file `rel`."""
  src, tree = parse_file(rel)
  parts = qualname.split('.')
  node = tree
  for p in parts:
    found = None
    for child in ast.iter_child_nodes(node):
      if isinstance(child, (ast.FunctionDef, ast.ClassDef)) and child.name == p:
        found = child
        break
    if found is None:
      # search nested statements (function defined inside if/try)
      for child in ast.walk(node):
        if child is not node and isinstance(child, (ast.FunctionDef, ast.ClassDef)) \
            and child.name == p:
          found = child
          break
    if found is None:
      raise ExtractError('unit %s not found in %s (looking for %s)' % (qualname, rel, p))
    node = found
  text = ast.get_source_segment(src, node)
  info = {
      'file': rel,
      'unit': qualname,
      'lines': [node.lineno, node.end_lineno],
      'sha256': hashlib.sha256(text.encode('utf-8')).hexdigest()[:16],
  }
  return node, text, info


def strip_docstring(body):
  if body and isinstance(body[0], ast.Expr) and isinstance(body[0].value, ast.Constant) \
      and isinstance(body[0].value.value, str):
    return body[1:], True
  return body, False


def is_call_to(stmt, names):
  """True when stmt is an expression statement calling one of names (dotted tail match)."""
  if not isinstance(stmt, ast.Expr) or not isinstance(stmt.value, ast.Call):
    return False
  f = stmt.value.func
  if isinstance(f, ast.Name):
    return f.id in names
  if isinstance(f, ast.Attribute):
    return f.attr in names
  return False


def module_constants(rel, names):
  """Evaluates simple module-level constant assignments (literals only) named in `names`."""
  src, tree = parse_file(rel)
  out = {}
  env = {}
  for st in tree.body:
    if isinstance(st, ast.Assign) and len(st.targets) == 1 and isinstance(st.targets[0], ast.Name):
      n = st.targets[0].id
      try:
        v = ast.literal_eval(st.value)
      except Exception:
        try:
          v = eval(compile(ast.Expression(st.value), rel, 'eval'), {'__builtins__': {
              'list': list, 'set': set, 'dict': dict}}, dict(env))
        except Exception:
          continue
      env[n] = v
      if n in names:
        out[n] = v
  return out


def find_slice(rel, qualname, first_stmt, last_stmt, params):
  """A *slice* of a long function as a synthetic function: the consecutive statements of one
  block starting at the statement whose source is `first_stmt` and ending at the one whose source
  starts with `last_stmt` (both included).  The statements are the real AST nodes."""
  node, text, info = find(rel, qualname)
  for parent in ast.walk(node):
    for field in ('body', 'orelse'):
      block = getattr(parent, field, None)
      if not isinstance(block, list):
        continue
      for i, st in enumerate(block):
        if isinstance(st, ast.stmt) and ast.unparse(st).strip().startswith(first_stmt):
          for j in range(i, len(block)):
            if ast.unparse(block[j]).strip().startswith(last_stmt):
              stmts = block[i:j + 1]
              fn = ast.FunctionDef(name=node.name + '__slice', args=ast.arguments(
                  posonlyargs=[], args=[ast.arg(arg=p) for p in params], kwonlyargs=[], kw_defaults=[],
                  defaults=[], vararg=None, kwarg=None), body=stmts, decorator_list=[], returns=None,
                  lineno=stmts[0].lineno, col_offset=0)
              seg = '\n'.join(ast.unparse(x) for x in stmts)
              info2 = dict(info, unit=qualname + ' [slice]', lines=[stmts[0].lineno, stmts[-1].end_lineno],
                           sha256=hashlib.sha256(seg.encode()).hexdigest()[:16],
                           slice='statements %r .. %r' % (first_stmt, last_stmt))
              return fn, seg, info2
  raise ExtractError('slice %r .. %r not found in %s of %s' % (first_stmt, last_stmt, qualname, rel))
