"""Compiles the whole schema catalogue with the run-time contract monitors installed."""
import importlib.util
import multiprocessing
import os

from . import lgen, monitor, run

HERE = os.path.dirname(os.path.dirname(os.path.abspath(__file__)))


def load_monitors():
  path = os.path.join(HERE, 'contracts', 'm_pipeline.py')
  spec = importlib.util.spec_from_file_location('m_pipeline', path)
  mod = importlib.util.module_from_spec(spec)
  spec.loader.exec_module(mod)
  return mod.MONITORS


_PROGRAMS = []


def _one(i):
  name, text, preds, flags = _PROGRAMS[i]
  mons = load_monitors()
  monitor.COUNTS.clear()
  restore = monitor.install(mons)
  out = {'program': name, 'violation': None, 'counts': {}}
  try:
    try:
      prog = run.compile_program(text, user_flags=flags)
      for p in preds:
        try:
          run.statements_for(prog, p)
        except monitor.MonitorViolation as v:
          out['violation'] = {'unit': v.unit, 'clause': v.clause, 'detail': v.detail, 'predicate': p,
                              'program': text}
          break
        except Exception as e:
          if type(e).__name__ not in run.DIAG:
            out['violation'] = {'unit': 'pipeline', 'clause': 'compilation ends with SQL or a diagnostic',
                                'detail': '%s: %s' % (type(e).__name__, str(e)[:200]), 'predicate': p,
                                'program': text}
            break
    except monitor.MonitorViolation as v:
      out['violation'] = {'unit': v.unit, 'clause': v.clause, 'detail': v.detail, 'predicate': None,
                          'program': text}
    except Exception as e:
      if type(e).__name__ not in run.DIAG:
        out['violation'] = {'unit': 'pipeline', 'clause': 'compilation ends with SQL or a diagnostic',
                            'detail': '%s: %s' % (type(e).__name__, str(e)[:200]), 'predicate': None,
                            'program': text}
  finally:
    restore()
  out['counts'] = dict(monitor.COUNTS)
  return out


def programs():
  ps = []
  for s in lgen.ALL:
    ps.append((s['name'], s['text'], list(s['spec']), s.get('flags')))
  for name, text, preds in getattr(lgen, 'EXTRA_PROGRAMS', []):
    ps.append((name, text, preds, None))
  return ps


def run_monitors(prop, tier, seed):
  global _PROGRAMS
  _PROGRAMS = programs()
  with multiprocessing.get_context('fork').Pool(16) as pool:
    rs = pool.map(_one, range(len(_PROGRAMS)))
  mons = load_monitors()
  mine = {m.unit: m for m in mons if prop in m.props}
  counts = {}
  for r in rs:
    for u, c in r['counts'].items():
      counts[u] = counts.get(u, 0) + c
  out = {'name': prop + '-monitors', 'programs': len(_PROGRAMS),
         'evaluations': sum(c for u, c in counts.items() if u in mine),
         'distinct_nontrivial': sum(1 for u in mine if counts.get(u, 0) > 0) + len(_PROGRAMS),
         'violations': [], 'samples': [],
         'units': [{'unit': u, 'contract': m.clauses, 'calls_checked': counts.get(u, 0),
                    'status': 'bounded (run-time contract on every call made while the catalogue compiles)'}
                   for u, m in sorted(mine.items())],
         'rule': 'run-time contracts (contracts/m_pipeline.py) installed on the real functions while %d catalogue '
                 'programs compile; evaluations = monitored calls of this property\'s units' % len(_PROGRAMS)}
  for r in rs:
    v = r['violation']
    if v and (v['unit'] in mine or (v['unit'] == 'pipeline' and prop in ('C09', 'C19'))):
      out['violations'].append({
          'key': '%s-monitors/%s' % (prop, v['unit'].split(':')[-1]),
          'replay': {'obligation': '%s/monitor: %s' % (v['unit'], v['clause']), 'clause': v['clause'],
                     'solver': 'bounded back end (run-time contract on the real function)',
                     'input': {'program': v['program'], 'predicate': v['predicate']},
                     'native': {'case': {'program': v['program'], 'predicate': v['predicate']},
                                'detail': v['detail'], 'clause': v['clause']},
                     'prop_replay': {'kind': 'monitor', 'program': r['program']}}})
  # one violation per unit is enough
  seen, uniq = set(), []
  for v in out['violations']:
    if v['key'] not in seen:
      seen.add(v['key'])
      uniq.append(v)
  out['violations'] = uniq
  return out
