"""Native contract runtime: the *same* sidecar contract text executed around the real function.

Used (a) as the bounded back end (every input from the unit's enumerator up to the stated bound),
(b) to replay solver counterexamples on the real code, (c) to cross-check the VC generator.
Nothing here is counted as proved.
"""
import ast
import copy
import importlib
import os
import sys

REPO = os.environ.get('VERIF_REPO', '/repo')
if REPO not in sys.path:
  sys.path.insert(0, REPO)


def repo_module(name):
  import contextlib, io
  with contextlib.redirect_stdout(io.StringIO()):   # concertina_lib prints on import
    return importlib.import_module(name)


class _Tx(ast.NodeTransformer):
  """implies(a, b) -> (not a) or b   (lazy);  old(e) -> __old[i];  intval/strval(x) -> x."""

  def __init__(self):
    self.olds = []

  def visit_Call(self, n):
    self.generic_visit(n)
    if isinstance(n.func, ast.Name):
      if n.func.id == 'implies' and len(n.args) == 2:
        return ast.BoolOp(op=ast.Or(), values=[ast.UnaryOp(op=ast.Not(), operand=n.args[0]), n.args[1]])
      if n.func.id == 'old' and len(n.args) == 1:
        self.olds.append(n.args[0])
        return ast.Subscript(value=ast.Name(id='__old', ctx=ast.Load()),
                             slice=ast.Constant(len(self.olds) - 1), ctx=ast.Load())
      if n.func.id in ('intval', 'strval') and len(n.args) == 1:
        return n.args[0]
    return n


_compiled = {}


def compile_clause(text):
  if text not in _compiled:
    tx = _Tx()
    tree = ast.parse(text.strip(), mode='eval')
    tree = ast.fix_missing_locations(tx.visit(tree))
    code = compile(tree, '<contract>', 'eval')
    olds = [compile(ast.fix_missing_locations(ast.Expression(o)), '<old>', 'eval') for o in tx.olds]
    _compiled[text] = (code, olds)
  return _compiled[text]


def isspace(c):
  return c.isspace()


BASE_ENV = {'isspace': isspace}


class Violation(Exception):
  def __init__(self, clause_kind, index, text, detail):
    Exception.__init__(self, '%s[%s] %s: %s' % (clause_kind, index, text, detail))
    self.clause_kind = clause_kind
    self.index = index
    self.text = text
    self.detail = detail


def check_call(u, fn, args, self_obj=None, extra_env=None):
  """Runs fn(*args) under contract u.  Returns ('skip'|'ok', outcome) or raises Violation."""
  env = dict(BASE_ENV)
  env.update(u.get('native_env', {}))
  if extra_env:
    env.update(extra_env)
  for p, a in zip(u['params'], args):
    env[p] = a
  if self_obj is not None:
    env['self'] = self_obj
  for name, (params, text) in u.get('spec_funcs', {}).items():
    if name not in env:
      env[name] = eval('lambda %s: (%s)' % (', '.join(params), text), env)
  for r in u.get('requires', []):
    code, _ = compile_clause(r)
    try:
      if not eval(code, env):
        return 'skip', None
    except Exception:
      return 'skip', None
  # axioms about spec functions: where the case supplies an executable definition, the axiom must
  # hold for it (an axiom false of its own witness would make every proof from it worthless)
  for ax in u.get('axioms', []):
    code, _ = compile_clause(ax)
    try:
      okax = eval(code, env)
    except Exception:
      continue        # not evaluable natively (ghost state, key outside a map's domain)
    if not okax:
      raise RuntimeError('axiom of %s is false of the executable spec function: %s' % (u['name'], ax))
  # old() snapshots
  ens = []
  for i_, e in enumerate(u.get('ensures', [])):
    if i_ in u.get('native_skip_ensures', []):
      continue          # clause over ghost state (locals at return): deductive tier only
    code, olds = compile_clause(e)
    ens.append((e, code, [copy.deepcopy(eval(o, env)) for o in olds]))
  rs = {}
  for exc, cond in u.get('raises', {}).items():
    code, _ = compile_clause(cond)
    try:
      rs[exc] = bool(eval(code, env))
    except Exception:
      rs[exc] = None
  mr = {}
  # native_may_raise: a sharper raise condition stated for the bounded back end only (the deductive tier keeps the
  # weaker `may_raise`, e.g. where the sharper one needs set cardinalities)
  for exc, cond in u.get('native_may_raise', u.get('may_raise', {})).items():
    code, _ = compile_clause(cond)
    try:
      mr[exc] = bool(eval(code, env))
    except Exception:
      mr[exc] = None
  try:
    result = fn(*args) if (self_obj is None and not u.get('slice')) else fn(self_obj, *args)
    if u.get('yields'):
      result = list(result)
  except AssertionError as ex:
    if u.get('asserts') == 'diagnostic' and (rs.get('AssertionError') or mr.get('AssertionError')):
      return 'ok', ('raise', 'AssertionError')
    if u.get('asserts') == 'diagnostic' and mr.get('AssertionError') is False:
      raise Violation('raise-only-if', 'AssertionError', u.get('native_may_raise', u.get('may_raise', {}))['AssertionError'],
                      'raised AssertionError: %s' % str(ex)[:200])
    raise Violation('assert', 0, str(ex)[:200], 'assertion failed in the real code')
  except Exception as ex:
    name = type(ex).__name__
    if name in mr:
      if mr[name] is False:
        raise Violation('raise-only-if', name, u.get('native_may_raise', u.get('may_raise', {}))[name],
                        'raised %s: %s' % (name, str(ex)[:200]))
      return 'ok', ('raise', name)
    if name in rs:
      if rs[name] is False:
        raise Violation('raise-only-if', name, u['raises'][name], 'raised %s: %s' % (name, str(ex)[:200]))
      return 'ok', ('raise', name)
    raise Violation('no-unexpected-raise', name, '', 'raised %s: %s' % (name, str(ex)[:200]))
  for exc, flag in rs.items():
    if flag:
      raise Violation('no-raise', exc, u['raises'][exc], 'returned %r but contract says it raises' % (result,))
  env['result'] = result
  for k_, v_ in getattr(fn, 'last_locals', {}).items():      # a slice: its locals at the end (ghost access)
    env.setdefault(k_, v_)
    env['final_' + k_] = v_
  if u.get('yields'):
    env['__yields'] = result
  for i, (text, code, olds) in enumerate(ens):
    env['__old'] = olds
    try:
      ok = eval(code, env)
    except Exception as ex:
      raise Violation('post', i, text, 'clause raised %s: %s (result=%r)' % (type(ex).__name__, ex, result))
    if not ok:
      raise Violation('post', i, text, 'result=%r' % (result,))
  return 'ok', ('return', result)


def resolve(u):
  """The real function object for unit u (module path from the file path)."""
  mod = repo_module(u['file'][:-3].replace('/', '.'))
  obj = mod
  for p in u['qualname'].split('.'):
    obj = getattr(obj, p)
  return mod, obj


class _Timeout(BaseException):
  pass


class _deadline(object):
  """Wall-clock limit for one native case (SIGALRM; main thread of a worker process only)."""

  def __init__(self, seconds):
    self.seconds = seconds

  def __enter__(self):
    import signal, threading
    self.active = threading.current_thread() is threading.main_thread()
    if self.active:
      def handler(signum, frame):
        raise _Timeout()
      self.old = signal.signal(signal.SIGALRM, handler)
      signal.setitimer(signal.ITIMER_REAL, self.seconds)

  def __exit__(self, *exc):
    import signal
    if self.active:
      signal.setitimer(signal.ITIMER_REAL, 0)
      signal.signal(signal.SIGALRM, self.old)
    return False


def slice_function(u, mod):
  """The statements of a slice unit compiled into a function (self, *params) -> locals at the end of the slice,
  executed in the globals of the real module: the bounded back end runs the same extracted statements the VCs are
  generated from."""
  from . import extract
  node, seg, info = extract.find_slice(u['file'], u['qualname'], u['slice'][0], u['slice'][1], u['params'])
  body = list(node.body) + [ast.Return(value=ast.Call(func=ast.Name(id='locals', ctx=ast.Load()), args=[], keywords=[]))]
  fdef = ast.FunctionDef(name='__verif_slice', args=ast.arguments(
      posonlyargs=[], args=[ast.arg(arg='self')] + [ast.arg(arg=p) for p in u['params']], kwonlyargs=[],
      kw_defaults=[], defaults=[], vararg=None, kwarg=None), body=body, decorator_list=[], returns=None)
  m = ast.fix_missing_locations(ast.Module(body=[fdef], type_ignores=[]))
  g = dict(vars(mod))
  exec(compile(m, '<slice of %s>' % u['qualname'], 'exec'), g)
  inner = g['__verif_slice']

  def fn(self_obj, *args):
    locs = inner(self_obj, *args)
    fn.last_locals = {k: v for k, v in locs.items() if k != 'self'}
    return locs.get(u.get('result_var')) if u.get('result_var') else None
  fn.last_locals = {}
  return fn


def run_native(u, tier, limit=None):
  """Bounded back end for one unit: every case of u['native'](tier).  Returns dict."""
  gen = u.get('native')
  out = {'unit': u['name'], 'evaluations': 0, 'skipped': 0, 'violation': None, 'samples': []}
  if gen is None:
    return out
  if u.get('slice'):
    mod = repo_module(u['file'][:-3].replace('/', '.'))
    try:
      fn = slice_function(u, mod)
    except Exception as e:
      # the statements of the slice are no longer there (the function was restructured): nothing to execute; the
      # deductive tier reports the unit as not found (undecided), the other contracts of the property still run
      out['not_found'] = '%s: %s' % (type(e).__name__, str(e)[:200])
      return out
  else:
    mod, fn = resolve(u)
  modenv = {k: v for k, v in vars(mod).items() if not k.startswith('__')}
  for case in gen(tier, mod):
    args = case.get('args', [])
    case.setdefault('env', {})
    case['env'] = dict(modenv, **case['env'])
    self_obj = case.get('self')
    try:
      with _deadline(u.get('native_timeout', 30)):
        if case.get('nocopy'):     # the case shares objects between receiver, arguments and its environment
          st, oc = check_call(u, fn, args, self_obj, case.get('env'))
        else:
          st, oc = check_call(u, fn, copy.deepcopy(args), copy.deepcopy(self_obj), case.get('env'))
    except _Timeout:
      out['violation'] = {'unit': u['name'], 'clause': 'termination[0]', 'text': 'the call returns',
                          'detail': 'no return within %d s on this input (the unchanged tree needs milliseconds)'
                                    % u.get('native_timeout', 30),
                          'case': case.get('show', repr(args)[:300])}
      out['evaluations'] += 1
      return out
    except Violation as v:
      out['violation'] = {'unit': u['name'], 'clause': '%s[%s]' % (v.clause_kind, v.index),
                          'text': v.text, 'detail': v.detail, 'case': case.get('show', repr(args)[:300])}
      out['evaluations'] += 1
      return out
    if st == 'skip':
      out['skipped'] += 1
    else:
      out['evaluations'] += 1
      if len(out['samples']) < 3:
        out['samples'].append({'case': case.get('show', repr(args)[:200]), 'outcome': repr(oc)[:120]})
    if limit and out['evaluations'] >= limit:
      break
  return out
