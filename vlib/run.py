"""Bounded back end for pipeline contracts: the real compiler + the built-in SQLite engine.

A *schema contract* is a contract on `LogicaProgram(ParseFile(text)).FormattedPredicateSql(p)`
composed with execution on `sqlite3_logica.SqliteConnect()`: for every small database the rows
returned equal a few-line Python comprehension (the spec).  Bounded, never counted as proved.
"""
import collections
import itertools
import os
import sys
import traceback

REPO = os.environ.get('VERIF_REPO', '/repo')
if REPO not in sys.path:
  sys.path.insert(0, REPO)

DIAG = ('ParsingException', 'RuleCompileException', 'FunctorError', 'TypeErrorCaughtException')


def mods():
  from parser_py import parse
  from compiler import universe
  from common import sqlite3_logica
  return parse, universe, sqlite3_logica


def compile_program(text, user_flags=None, import_root=None):
  parse, universe, _ = mods()
  rules = parse.ParseFile(text, import_root=import_root)['rule']
  return universe.LogicaProgram(rules, user_flags=user_flags or {})


def statements_for(prog, predicate):
  """The statements `logica.py <file> run <p>` would execute, in order."""
  prog.FormattedPredicateSql(predicate)
  ex = prog.execution
  pre = [ex.preamble] if ex.preamble.strip() else []
  return pre + list(ex.defines_and_exports), ex.main_predicate_sql


def connect(db=':memory:'):
  _, _, sqlite3_logica = mods()
  return sqlite3_logica.SqliteConnect(db)


def load_tables(con, tables, arities, colnames=None):
  for t, rows in tables.items():
    cols = (colnames or {}).get(t) or ['col%d' % i for i in range(arities[t])]
    con.execute('DROP TABLE IF EXISTS %s' % t)
    con.execute('CREATE TABLE %s (%s)' % (t, ', '.join(cols)))
    if rows:
      con.executemany('INSERT INTO %s VALUES (%s)' % (t, ','.join('?' * len(cols))), rows)


def execute(con, pre, main):
  for s in pre:
    con.executescript(s)
  cur = con.execute(main)
  rows = cur.fetchall()
  cols = [d[0] for d in cur.description]
  return rows, cols


def execute_workflow(prog, predicates, con):
  """Runs the predicates as `tools/run_in_terminal.py` does: compile each, then
  concertina_lib.ExecuteLogicaProgram over the executions with a SQLite runner."""
  import contextlib, io
  with contextlib.redirect_stdout(io.StringIO()):
    from common import concertina_lib
  executions = []
  for p in predicates:
    prog.FormattedPredicateSql(p)
    executions.append(prog.execution)

  calls = [0]

  def runner(sql, engine, is_final):
    calls[0] += 1
    if calls[0] > 20000:
      raise RuntimeError('more than 20000 statements executed: the run does not terminate')
    if is_final:
      cur = con.execute(sql)
      return [d[0] for d in cur.description], cur.fetchall()
    con.executescript(sql)
  with contextlib.redirect_stdout(io.StringIO()):
    res = concertina_lib.ExecuteLogicaProgram(executions, runner, 'sqlite', display_mode='silent')
  return res


def bags(domain_rows, max_rows):
  """All multisets (as sorted tuples of rows) of at most max_rows rows."""
  for n in range(max_rows + 1):
    for c in itertools.combinations_with_replacement(domain_rows, n):
      yield list(c)


def databases(arities, domain, max_rows, domains=None, cap=None, seed=0):
  names = sorted(arities)
  per = []
  for t in names:
    dom = (domains or {}).get(t, domain)
    if dom and isinstance(dom[0], tuple):
      rows = list(dom)
    else:
      rows = list(itertools.product(dom, repeat=arities[t]))
    per.append(list(bags(rows, max_rows)))
  total = 1
  for p in per:
    total *= len(p)
  if cap and total > cap:
    import random
    rnd = random.Random(seed)
    seen = set()
    # always include the all-empty and some dense databases, then a seeded sample
    for _ in range(cap):
      pick = tuple(rnd.randrange(len(p)) for p in per)
      if pick in seen:
        continue
      seen.add(pick)
      yield dict(zip(names, [per[i][j] for i, j in enumerate(pick)])), False
    return
  for combo in itertools.product(*per):
    yield dict(zip(names, combo)), True


def canon(rows):
  return collections.Counter(tuple(r) for r in rows)


def norm_rows(rows, mode):
  if mode not in ('sort_json_lists', 'json_compact'):
    return rows
  import json
  out = []
  for r in rows:
    rr = []
    for v in r:
      if isinstance(v, str) and v.startswith('['):
        try:
          l_ = json.loads(v)
          v = json.dumps(sorted(l_, key=repr) if mode == 'sort_json_lists' else l_, separators=(',', ':'))
        except ValueError:
          pass
      rr.append(v)
    out.append(tuple(rr))
  return out


def run_schema(schema, tier, seed=0):
  """Checks one schema contract.  Returns a result dict (picklable)."""
  res = {'schema': schema['name'], 'evaluations': 0, 'nontrivial': 0, 'violation': None,
         'exhaustive': True, 'sample': None}
  try:
    text = schema['text']
    arities = schema.get('tables', {})
    max_rows = schema.get('max_rows', {}).get(tier, 2 if tier == 'quick' else 3)
    domain = schema.get('domain', [0, 1, 2])
    cap = schema.get('cap', {}).get(tier, 400 if tier == 'quick' else 6000)
    prog = compile_program(text, user_flags=schema.get('flags'))
    compiled = {}
    if schema.get('workflow'):
      return run_workflow_schema(schema, prog, res, arities, domain, max_rows, cap, seed)
    for p in schema['spec']:
      compiled[p] = statements_for(prog, p)
      if schema.get('sql_check'):
        msg = schema['sql_check'](p, compiled[p][1], prog)
        if msg:
          res['violation'] = {'predicate': p, 'db': None, 'detail': msg, 'sql': compiled[p][1][:600]}
          return res
    con = connect()
    dbf = None
    if schema.get('db_filter'):
      from . import lgen
      dbf = lgen.DB_FILTERS[schema['db_filter']]
    attaches = any('ATTACH' in st for (pre_, _m) in compiled.values() for st in pre_)
    source = ([(d, True) for d in schema['dbs']] if schema.get('dbs') else
              databases(arities, domain, max_rows, schema.get('domains'), cap, seed))
    for db, exhaustive in source:
      res['exhaustive'] = res['exhaustive'] and exhaustive
      if dbf is not None and not dbf(db):
        continue
      orders = [db]
      if schema.get('row_orders'):
        t0 = sorted(db)[0]
        orders = [dict(db, **{t0: list(pm)}) for pm in itertools.permutations(db[t0])]
      for db_o in orders:
       db = db_o
       if not attaches:
        load_tables(con, db_o, arities, schema.get('colnames'))
       for p, spec in schema['spec'].items():
        pre, main = compiled[p]
        if attaches:
          # the preamble attaches a database: one fresh connection per run, as `logica.py run` does
          con.close()
          con = connect()
          load_tables(con, db, arities, schema.get('colnames'))
        expected = spec(db)
        try:
          rows, cols = execute(con, pre, main)
        except Exception as e:
          res['violation'] = {'predicate': p, 'db': db, 'detail': 'execution failed: %s: %s' % (
              type(e).__name__, str(e)[:300]), 'sql': main[:600]}
          return res
        rows = norm_rows(rows, schema.get('row_norm'))
        expected = norm_rows(expected, schema.get('row_norm'))
        res['evaluations'] += 1
        if expected:
          res['nontrivial'] += 1
        ordered = p in schema.get('ordered', ())
        if schema.get('between'):
          # set-valued program whose spec is a pair (lower, upper): everything derivable within the bound,
          # nothing outside the least fixpoint, no row twice
          lo_, hi_ = expected
          got_ = set(map(tuple, rows))
          ok = set(map(tuple, lo_)) <= got_ <= set(map(tuple, hi_)) and len(got_) == len(rows)
          expected = lo_
        else:
          ok = (list(map(tuple, rows)) == list(map(tuple, expected))) if ordered else \
              (canon(rows) == canon(expected))
        want_cols = schema.get('cols', {}).get(p)
        if ok and want_cols is not None and cols != want_cols:
          res['violation'] = {'predicate': p, 'db': db, 'detail': 'columns %r, contract says %r' % (
              cols, want_cols), 'sql': main[:600]}
          return res
        if not ok:
          res['violation'] = {'predicate': p, 'db': db,
                              'detail': 'rows %r, contract (spec comprehension) says %r' % (
                                  sorted(map(tuple, rows), key=repr)[:12],
                                  sorted(map(tuple, expected), key=repr)[:12]),
                              'sql': main[:600]}
          return res
        if res['sample'] is None and expected:
          res['sample'] = {'schema': schema['name'], 'predicate': p, 'db': db,
                           'rows': sorted(map(tuple, rows), key=repr)[:6]}
    con.close()
  except Exception as e:
    name = type(e).__name__
    res['violation'] = {'predicate': None, 'db': None,
                        'detail': 'compilation failed: %s: %s' % (name, str(e)[:300]),
                        'trace': traceback.format_exc()[-800:]}
  return res


def run_workflow_schema(schema, prog, res, arities, domain, max_rows, cap, seed):
  """Schema contract for programs executed as a workflow (iterative recursion, @Ground)."""
  preds = list(schema['spec'])
  for db, exhaustive in databases(arities, domain, max_rows, schema.get('domains'), cap, seed):
    res['exhaustive'] = res['exhaustive'] and exhaustive
    groups = [[p] for p in preds] + ([preds] if schema.get('together') and len(preds) > 1 else [])
    for group in groups:
      con = connect()
      load_tables(con, db, arities, schema.get('colnames'))
      try:
        out = execute_workflow(prog, group, con)
      except Exception as e:
        res['violation'] = {'predicate': ','.join(group), 'db': db, 'detail': 'workflow execution failed: %s: %s' % (
            type(e).__name__, str(e)[:300]), 'sql': None}
        return res
      for p in group:
        cols, rows = out[p]
        expected = schema['spec'][p](db)
        res['evaluations'] += 1
        if expected:
          res['nontrivial'] += 1
        if schema.get('between'):
          lo_, hi_ = expected
          got_ = set(map(tuple, rows))
          ok_ = set(map(tuple, lo_)) <= got_ <= set(map(tuple, hi_)) and len(got_) == len(rows)
          expected = lo_
        else:
          ok_ = canon(rows) == canon(expected)
        if not ok_:
          res['violation'] = {'predicate': p, 'db': db, 'asked_together': group,
                              'detail': 'rows %r, contract (spec) says %r' % (
                                  sorted(map(tuple, rows), key=repr)[:14], sorted(map(tuple, expected), key=repr)[:14]),
                              'sql': None}
          return res
        if res['sample'] is None and expected:
          res['sample'] = {'schema': schema['name'], 'predicate': p, 'db': db,
                           'rows': sorted(map(tuple, rows), key=repr)[:6]}
      con.close()
  return res
