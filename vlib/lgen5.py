"""Schemas added in round 5 of the seeded changes (see DESIGN.md 9.9).  Same format as lgen.py."""
import json
from .lgen import S, J

_ld = json.loads

_pu = lambda db: {u: len([1 for (u2, p) in db['Visits'] if u2 == u]) for u in {u for (u, p) in db['Visits']}}

ROUND5 = [
  # a functor applied to a member of a mutually recursive, iteratively unfolded component: the copy is the same
  # recursion from the other start, and the original keeps its meaning (known finding: it does not, see DESIGN 9.9)
  S('rec_functor_over_deep_mutual', '@Recursive(A, 25);\nA(x) distinct :- St(x);\nA(x + 1) distinct :- B(x);\n'
    'B(x + 1) distinct :- A(x);\nMA := A(St: Sm);', {'St': 1, 'Sm': 1},
    {'MA': lambda db: sorted({(x + k,) for (x,) in db['Sm'] for k in range(0, 26, 2)})},
    tags=('C03', 'C04'), workflow=True, max_rows={'quick': 1, 'thorough': 1}, domain=[0, 100]),
  S('rec_functor_over_deep_mutual_original', '@Recursive(A, 25);\nA(x) distinct :- St(x);\nA(x + 1) distinct :- B(x);\n'
    'B(x + 1) distinct :- A(x);\nMA := A(St: Sm);', {'St': 1, 'Sm': 1},
    {'A': lambda db: sorted({(x + k,) for (x,) in db['St'] for k in range(0, 26, 2)})},
    tags=('C03', 'C04'), workflow=True, max_rows={'quick': 1, 'thorough': 1}, domain=[0, 100]),
  # one application binding two arguments, one of which is defined through the other
  S('functor_arg_defined_via_other_arg', 'A(x) :- C(x);\nM(x) :- A(x);\nF(x) :- M(x);\nF(x) :- C(y), x == y + 1000;\n'
    'N := F(A: B, C: D);\nN1 := F(A: B);\nN2 := F(C: D);', {'B': 1, 'C': 1, 'D': 1},
    {'N': lambda db: list(db['B']) + [(y + 1000,) for (y,) in db['D']],
     'F': lambda db: list(db['C']) + [(y + 1000,) for (y,) in db['C']],
     'N1': lambda db: list(db['B']) + [(y + 1000,) for (y,) in db['C']],
     'N2': lambda db: list(db['D']) + [(y + 1000,) for (y,) in db['D']], 'A': lambda db: list(db['C'])},
    tags=('C04',), max_rows={'quick': 2, 'thorough': 2}, cap={'quick': 100, 'thorough': 1500}),
  # a predicate with rules of its own that is also extended by `:=`, then used as the applicant of another application
  S('functor_extends_defined_predicate', 'M(x) :- A(x), x > 0;\nF(x) :- M(x);\nN(x) :- B(x), x > 1;\nN := F(A: B);\n'
    'N2 := N(B: C);', {'A': 1, 'B': 1, 'C': 1},
    {'N': lambda db: [(x,) for (x,) in db['B'] if x > 1] + [(x,) for (x,) in db['B'] if x > 0],
     'N2': lambda db: [(x,) for (x,) in db['C'] if x > 1] + [(x,) for (x,) in db['C'] if x > 0],
     'F': lambda db: [(x,) for (x,) in db['A'] if x > 0]},
    tags=('C04',), max_rows={'quick': 2, 'thorough': 2}, cap={'quick': 100, 'thorough': 1500}),
  # a WITH-compiled aggregate over a grounded table, read by three grounded consumers and the main query
  S('wf_with_three_ground_consumers', '@Ground(Visits);\nVisits(u, p) :- Src(u, p);\n'
    'PerUser(u, n? += 1) distinct :- Visits(u, p);\n@Ground(Heavy);\nHeavy(u) :- PerUser(u, n:), n > 1;\n'
    '@Ground(AllUsers);\nAllUsers(u) :- PerUser(u);\n@Ground(Light);\nLight(u) :- PerUser(u, n:), n == 1;\n'
    'Report(u, "heavy") :- Heavy(u), AllUsers(u);\nReport(u, "light") :- Light(u), AllUsers(u);', {'Src': 2},
    {'Report': lambda db: [(u, 'heavy' if n > 1 else 'light') for u, n in
                           {u: len([1 for (u2, p) in db['Src'] if u2 == u]) for u in {u for (u, p) in db['Src']}}.items()]},
    tags=('C14', 'C17'), workflow=True, max_rows={'quick': 3, 'thorough': 3}, cap={'quick': 20, 'thorough': 150}),
  # an ordered and limited predicate re-instantiated twice through functors, and read through an injectible intermediate
  S('order_limit_second_level_functor', 'Top(x, y) order_by("col0 desc", "col1") limit(2) :- Src(x, y);\nR := Top(Src: T);\n'
    'Sx := R(T: U);\nOut(x, y) :- Sx(x, y);\nOutR(x, y) :- R(x, y);', {'Src': 2, 'T': 2, 'U': 2},
    {'Out': lambda db: sorted(db['U'], key=lambda r: (-r[0], r[1]))[:2],
     'OutR': lambda db: sorted(db['T'], key=lambda r: (-r[0], r[1]))[:2]},
    tags=('C18', 'C04'), max_rows={'quick': 3, 'thorough': 3}, cap={'quick': 60, 'thorough': 600}, domain=[0, 1]),
  S('order_limit_through_intermediate', 'Top(x) order_by("col0 desc") limit(2) :- T(x);\nMid(x) :- Top(x);\nC(x) :- Mid(x);\n'
    'J(x, y) :- Mid(x), T(y), y == x;\n@OrderBy(Z, "col0");\n@Limit(Z, 0);\nZ(x) :- T(x);\nMz(x) :- Z(x);\nCz(x) :- Mz(x);',
    {'T': 1},
    {'C': lambda db: sorted(db['T'], reverse=True)[:2],
     'J': lambda db: [(x, y) for (x,) in sorted(db['T'], reverse=True)[:2] for (y,) in db['T'] if y == x],
     'Cz': lambda db: []},
    tags=('C18', 'C08'), max_rows={'quick': 3, 'thorough': 4}, domain=[0, 1, 2, 3]),
  # negation of something that already renders with a leading minus
  S('bi_double_minus', 'Dm(x, -(-x), -(-3), 0 - (-x)) :- N(x);\nCh(x, z) :- N(x), y == -x, z == -y;\n'
    'Cn(z, 7) :- x == -3, z == -x;', {'N': 1},
    {'Dm': lambda db: [(x, x, 3, x) for (x,) in db['N']], 'Ch': lambda db: [(x, x) for (x,) in db['N']],
     'Cn': lambda db: [(3, 7)]}, tags=('C20', 'C01'), domain=[-1, 0, 2]),
  # `=` in propositions means `==`, also twice in one rule and inside aggregating expressions / negations
  S('sugar_eq_twice', 'S(x, a) :- Q(x, a), x = 1, a = 2;\nL(x, a) :- Q(x, a), x == 1, a == 2;\n'
    'S2(x, n) :- A(x), n = Sum{a :- Q(y, a), y = x, a = 2};\nL2(x, n) :- A(x), n == Sum{a :- Q(y, a), y == x, a == 2};\n'
    'S3(x) :- A(x), ~(Q(y, a), y = x, a = 2);\nL3(x) :- A(x), ~(Q(y, a), y == x, a == 2);', {'Q': 2, 'A': 1},
    {'S': lambda db: [(x, a) for (x, a) in db['Q'] if x == 1 and a == 2],
     'L': lambda db: [(x, a) for (x, a) in db['Q'] if x == 1 and a == 2],
     'S2': lambda db: [(x, (lambda l: sum(l) if l else None)([a for (y, a) in db['Q'] if y == x and a == 2])) for (x,) in db['A']],
     'L2': lambda db: [(x, (lambda l: sum(l) if l else None)([a for (y, a) in db['Q'] if y == x and a == 2])) for (x,) in db['A']],
     'S3': lambda db: [(x,) for (x,) in db['A'] if not [1 for (y, a) in db['Q'] if y == x and a == 2]],
     'L3': lambda db: [(x,) for (x,) in db['A'] if not [1 for (y, a) in db['Q'] if y == x and a == 2]]},
    tags=('C11', 'C01')),
  # list literals of constants with characters JSON would escape, and numerals JSON would not read
  S('sugar_in_constant_strings', 'Il(x) :- W(x), x in ["C:\\temp", "a\\tb", \'q"uote\', "plain"];\n'
    'Ia(x) :- W(x), (x == "C:\\temp" | x == "a\\tb" | x == \'q"uote\' | x == "plain");\n'
    'Nl(n) :- n in [.5, 007, 2];', {'W': 1},
    {'Il': lambda db: [(x,) for (x,) in db['W'] if x in ('C:\\temp', 'a\\tb', 'q"uote', 'plain')],
     'Ia': lambda db: [(x,) for (x,) in db['W'] if x in ('C:\\temp', 'a\\tb', 'q"uote', 'plain')],
     'Nl': lambda db: [(0.5,), (7,), (2,)]},
    tags=('C11', 'C10'), domain=['C:\\temp', 'a\\tb', 'a\tb', 'plain', 'q"uote']),
]
