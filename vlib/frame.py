"""Static frame / determinism inventory (C13) over the current source of the compiler.

Finds, in the listed files, every site of four kinds and compares it with the table of sites that
carry a recorded justification (contracts/c13_frames.py).  A site that is not in the table is an
unjustified obligation: the check reports it (no failing input can be produced statically; the
bounded relational tier looks for one).

  F1  write to module- or class-level state        (global X ... X = ;  cls.X = ;  ClassName.X = )
  F2  a class-level mutable bound to an instance attribute without a copy  (self.a = self.CONST)
  F3  order-sensitive use of a set-typed value     (for x in <set>;  list(<set>);  min/max(<set>, key=...);
                                                     ', '.join(<set>);  next(iter(<set>)) ...)
  F4  reads of time / random / os.environ / id() / hash()
  F5  memoisation of a function (functools.lru_cache / cache decorators, module-level dict used as a cache)
      and mutable default arguments: results shared between compilations
"""
import ast
import os

REPO = os.environ.get('VERIF_REPO', '/repo')

FILES = ['parser_py/parse.py', 'compiler/universe.py', 'compiler/functors.py', 'compiler/rule_translate.py',
         'compiler/expr_translate.py', 'compiler/dialects.py', 'compiler/dialect_libraries/recursion_library.py',
         'type_inference/research/infer.py', 'type_inference/research/types_of_builtins.py',
         'type_inference/research/reference_algebra.py']

ORDER_INSENSITIVE_SINKS = {'set', 'frozenset', 'sorted', 'len', 'any', 'all', 'sum', 'bool', 'dict'}


def _src(n):
  return ' '.join(ast.unparse(n).split())


class Sets(ast.NodeVisitor):
  """Very small flow-insensitive typing: names / attributes assigned from set-valued expressions."""

  SET_FUNCS = set()      # module-level functions every return of which is set-valued (filled by inventory())

  def __init__(self):
    self.setnames = set()

  def is_set(self, n):
    if isinstance(n, ast.Call) and isinstance(n.func, (ast.Name, ast.Attribute)) and \
        (n.func.id if isinstance(n.func, ast.Name) else n.func.attr) in Sets.SET_FUNCS:
      return True
    if isinstance(n, (ast.Set, ast.SetComp)):
      return True
    if isinstance(n, ast.Call) and isinstance(n.func, ast.Name) and n.func.id in ('set', 'frozenset'):
      return True
    if isinstance(n, ast.Call) and isinstance(n.func, ast.Attribute) and n.func.attr in (
        'union', 'intersection', 'difference', 'symmetric_difference'):
      return True
    if isinstance(n, ast.BinOp) and isinstance(n.op, (ast.BitOr, ast.BitAnd, ast.Sub, ast.BitXor)):
      return self.is_set(n.left) or self.is_set(n.right)
    if isinstance(n, (ast.Name, ast.Attribute)):
      return _src(n) in self.setnames
    return False

  def visit_Assign(self, n):
    if self.is_set(n.value):
      for t in n.targets:
        if isinstance(t, (ast.Name, ast.Attribute)):
          self.setnames.add(_src(t))
    self.generic_visit(n)

  def visit_AugAssign(self, n):
    if self.is_set(n.value) and isinstance(n.target, (ast.Name, ast.Attribute)):
      self.setnames.add(_src(n.target))
    self.generic_visit(n)


MUTATORS = {'append', 'add', 'update', 'setdefault', 'pop', 'popitem', 'clear', 'extend', 'insert', 'remove',
            'discard', 'sort', 'reverse', 'appendleft'}


def module_mutables(tree):
  """Names bound at module level to a mutable container (dict / list / set literal or constructor)."""
  out = set()
  for ch in tree.body:
    if isinstance(ch, (ast.Assign, ast.AnnAssign)):
      v = ch.value
      mutable = isinstance(v, (ast.Dict, ast.List, ast.Set, ast.DictComp, ast.ListComp, ast.SetComp)) or (
          isinstance(v, ast.Call) and _src(v.func).split('.')[-1] in (
              'dict', 'list', 'set', 'defaultdict', 'OrderedDict', 'deque', 'Counter'))
      if mutable:
        for t in (ch.targets if isinstance(ch, ast.Assign) else [ch.target]):
          if isinstance(t, ast.Name):
            out.add(t.id)
  return out


def class_mutables(tree):
  """{class name: names bound in the class body to a mutable container}."""
  out = {}
  for ch in ast.walk(tree):
    if isinstance(ch, ast.ClassDef):
      names = set()
      for st in ch.body:
        if isinstance(st, (ast.Assign, ast.AnnAssign)) and st.value is not None:
          v = st.value
          if isinstance(v, (ast.Dict, ast.List, ast.Set, ast.DictComp, ast.ListComp, ast.SetComp)) or (
              isinstance(v, ast.Call) and _src(v.func).split('.')[-1] in (
                  'dict', 'list', 'set', 'defaultdict', 'OrderedDict', 'deque', 'Counter')):
            for t in (st.targets if isinstance(st, ast.Assign) else [st.target]):
              if isinstance(t, ast.Name):
                names.add(t.id)
      if names:
        out[ch.name] = names
  return out


def function_sites(rel, fn, qual, module_names=(), class_names=None):
  sites = []
  # F5 (class-level container mutated: through Class.X / cls.X / self.X or a local alias of it)
  all_cls = set().union(*class_names.values()) if class_names else set()

  def is_class_container(e):
    return isinstance(e, ast.Attribute) and isinstance(e.value, ast.Name) and e.attr in all_cls and (
        e.value.id in ('cls', 'self') or e.value.id in (class_names or {}))
  aliases = set()
  for n in ast.walk(fn):
    if isinstance(n, ast.Assign) and is_class_container(n.value):
      aliases.update(t.id for t in n.targets if isinstance(t, ast.Name))

  def hits(e):
    return is_class_container(e) or (isinstance(e, ast.Name) and e.id in aliases)
  for n in ast.walk(fn):
    if isinstance(n, (ast.Assign, ast.AugAssign, ast.Delete)):
      for t in (n.targets if isinstance(n, (ast.Assign, ast.Delete)) else [n.target]):
        if isinstance(t, ast.Subscript) and hits(t.value):
          sites.append(('F5', 'class-level container written: ' + _src(n)[:80]))
    if isinstance(n, ast.Call) and isinstance(n.func, ast.Attribute) and n.func.attr in MUTATORS and hits(n.func.value):
      sites.append(('F5', 'class-level container mutated: ' + _src(n)[:80]))
  # F5 (module-level container mutated from a function: a cache / registry shared between compilations)
  local = {a.arg for a in fn.args.args + fn.args.kwonlyargs} | \
      {t.id for n in ast.walk(fn) if isinstance(n, ast.Assign) for t in n.targets if isinstance(t, ast.Name)}
  shared = set(module_names) - local
  for n in ast.walk(fn):
    if isinstance(n, (ast.Assign, ast.AugAssign, ast.Delete)):
      for t in (n.targets if isinstance(n, (ast.Assign, ast.Delete)) else [n.target]):
        if isinstance(t, ast.Subscript) and isinstance(t.value, ast.Name) and t.value.id in shared:
          sites.append(('F5', 'module-level container written: ' + _src(n)[:80]))
    if isinstance(n, ast.Call) and isinstance(n.func, ast.Attribute) and n.func.attr in MUTATORS and \
        isinstance(n.func.value, ast.Name) and n.func.value.id in shared:
      sites.append(('F5', 'module-level container mutated: ' + _src(n)[:80]))
  for d in fn.decorator_list:
    if 'cache' in _src(d):
      sites.append(('F5', 'decorator ' + _src(d)))
  for d in list(fn.args.defaults) + [x for x in fn.args.kw_defaults if x is not None]:
    if isinstance(d, (ast.List, ast.Dict, ast.Set)) or (isinstance(d, ast.Call) and _src(d.func) in ('list', 'dict', 'set')):
      sites.append(('F5', 'mutable default ' + _src(d)))
  sets = Sets()
  # two passes so that names assigned later in the function are known
  sets.visit(fn)
  sets.visit(fn)
  globals_ = set()
  for n in ast.walk(fn):
    if isinstance(n, ast.Global):
      globals_.update(n.names)
  for n in ast.walk(fn):
    # F1
    if isinstance(n, (ast.Assign, ast.AugAssign)):
      targets = n.targets if isinstance(n, ast.Assign) else [n.target]
      for t in targets:
        if isinstance(t, ast.Name) and t.id in globals_:
          sites.append(('F1', _src(n)))
        if isinstance(t, ast.Attribute) and isinstance(t.value, ast.Name) and (
            t.value.id == 'cls' or (t.value.id[:1].isupper() and t.attr.isupper())):
          sites.append(('F1', _src(n)))
      # F2
      if isinstance(n, ast.Assign):
        v = n.value
        if isinstance(v, ast.Attribute) and v.attr.isupper() and isinstance(v.value, ast.Name) and \
            v.value.id in ('self', 'cls'):
          for t in targets:
            if isinstance(t, ast.Attribute) and isinstance(t.value, ast.Name) and t.value.id == 'self':
              sites.append(('F2', _src(n)))
        # alias of an instance attribute that itself aliases a class constant
        if isinstance(v, ast.Attribute) and isinstance(v.value, ast.Name) and v.value.id == 'self' and \
            not v.attr.isupper():
          for t in targets:
            if isinstance(t, ast.Attribute) and isinstance(t.value, ast.Name) and t.value.id == 'self':
              sites.append(('F2', _src(n)))
    # F3
    if isinstance(n, ast.For) and sets.is_set(n.iter):
      sites.append(('F3', 'for %s in %s' % (_src(n.target), _src(n.iter))))
    if isinstance(n, (ast.ListComp, ast.GeneratorExp, ast.DictComp)):
      for g in n.generators:
        if sets.is_set(g.iter):
          sites.append(('F3', '%s: comprehension over %s' % (type(n).__name__, _src(g.iter))))
    if isinstance(n, ast.Call):
      f = n.func
      name = f.id if isinstance(f, ast.Name) else (f.attr if isinstance(f, ast.Attribute) else None)
      if name in ('list', 'tuple', 'next', 'iter', 'enumerate') and n.args and sets.is_set(n.args[0]):
        sites.append(('F3', _src(n)))
      if name in ('min', 'max') and n.args and sets.is_set(n.args[0]) and n.keywords:
        sites.append(('F3', _src(n)))
      if name == 'join' and n.args and sets.is_set(n.args[0]):
        sites.append(('F3', _src(n)))
      if name == 'pop' and isinstance(f, ast.Attribute) and sets.is_set(f.value) and not n.args:
        sites.append(('F3', _src(n)))
      # F4
      d = _src(f)
      if d in ('time.time', 'time.time_ns', 'random.random', 'random.choice', 'random.randint', 'id', 'hash',
               'os.getenv', 'os.environ.get', 'datetime.datetime.now', 'uuid.uuid4', 'os.getpid'):
        sites.append(('F4', _src(n)))
    if isinstance(n, ast.Subscript) and _src(n.value) == 'os.environ':
      sites.append(('F4', _src(n)))
  return [(rel, qual, k, s) for (k, s) in sites]


def inventory():
  out = []
  for rel in FILES:
    path = os.path.join(REPO, rel)
    tree = ast.parse(open(path, encoding='utf-8').read())
    mm = module_mutables(tree)
    cm = class_mutables(tree)
    # functions of this module that return sets (two rounds: a set function may return a call of another)
    for _ in range(2):
      for ch in tree.body:
        if isinstance(ch, ast.FunctionDef):
          rets = [r.value for r in ast.walk(ch) if isinstance(r, ast.Return) and r.value is not None]
          sets_ = Sets()
          sets_.visit(ch)
          if rets and all(sets_.is_set(r) for r in rets):
            Sets.SET_FUNCS.add(ch.name)

    def walk(node, prefix):
      for ch in ast.iter_child_nodes(node):
        if isinstance(ch, ast.ClassDef):
          walk(ch, prefix + ch.name + '.')
        elif isinstance(ch, (ast.FunctionDef, ast.AsyncFunctionDef)):
          out.extend(function_sites(rel, ch, prefix + ch.name, mm, cm))
    walk(tree, '')
  # de-duplicate while keeping order
  seen, res = set(), []
  for s in out:
    if s not in seen:
      seen.add(s)
      res.append(s)
  return res
