"""Sidecar loading and per-unit verification driver."""
import importlib.util
import glob
import os
import time
import traceback

import z3

from . import extract
from . import symex
from . import prove
from . import sv

HERE = os.path.dirname(os.path.dirname(os.path.abspath(__file__)))


def unit(file, qualname, **kw):
  """Declares a unit under contract.  kw: params, types, fields, locals, returns, requires,
  ensures, raises, modifies, loops, pure, cls, consts, yields, axioms, drop_calls, asserts,
  props (property ids the unit serves), external (assumed contract, no body verified)."""
  d = dict(kw)
  d['file'] = file
  d['qualname'] = qualname
  d.setdefault('name', qualname)
  d.setdefault('params', [])
  if '.' in qualname and 'cls' not in d and not d.get('external'):
    d['cls'] = qualname.rsplit('.', 1)[0]
  return d


def load_sidecars(pattern='contracts/c*.py'):
  units = []
  for path in sorted(glob.glob(os.path.join(HERE, pattern))):
    spec = importlib.util.spec_from_file_location(os.path.basename(path)[:-3], path)
    mod = importlib.util.module_from_spec(spec)
    spec.loader.exec_module(mod)
    for u in getattr(mod, 'UNITS', []):
      u['sidecar'] = os.path.relpath(path, HERE)
      u['module'] = mod
      units.append(u)
  return units


def registry(units):
  reg = {}
  for u in units:
    reg[u['name']] = u
    for alias in u.get('aliases', []):
      reg[alias] = u
  return reg


def verify_unit(u, reg):
  """Extracts the unit from the current tree, generates VCs, discharges them.

  Returns dict(name, status, obligations=[...], info, error)."""
  res = {'name': u['name'], 'file': u['file'], 'obligations': [], 'status': 'ok',
         'assumed': [], 'dropped': []}
  t0 = time.time()
  try:
    if u.get('slice'):
      node, text, info = extract.find_slice(u['file'], u['qualname'], u['slice'][0], u['slice'][1], u['params'])
    else:
      node, text, info = extract.find(u['file'], u['qualname'])
    res['info'] = info
    uu = dict(u)
    uu['node'] = node
    if u.get('decide'):
      # special-purpose complete decider for this unit's fragment (see the sidecar)
      res['obligations'] = u['decide'](u, node, os.environ.get('VERIF_TIER_CURRENT', 'quick'))
      res['time'] = time.time() - t0
      return res
    if u.get('module_consts'):
      uu['consts'] = dict(u.get('consts', {}))
      uu['consts'].update(extract.module_constants(u['file'], u['module_consts']))
    eng = symex.Engine(uu, reg)
    obls = eng.run()
    res['dropped'] = uu.get('_dropped', [])
    res['assumed'] = sorted(uu.get('_assumed', []))
    axioms = []
    for sn in sorted(uu.get('_orders', [])):
      axioms.extend(prove.order_axioms(sn))
  except (symex.Unsupported, z3.Z3Exception) as e:
    # a construct outside the encoded subset (incl. an ill-sorted term, e.g. a list literal mixing
    # element types): no VC is generated, the unit is undecided for the deductive tier
    res['status'] = 'out-of-subset'
    res['error'] = str(e)
    res['time'] = time.time() - t0
    return res
  except extract.ExtractError as e:
    res['status'] = 'not-found'
    res['error'] = str(e)
    res['time'] = time.time() - t0
    return res
  by_name = {}
  any_exit = None
  exits = sorted([ob for ob in obls if ob.expect == 'sat-any'], key=lambda o: len(o.pc))
  for ob in exits:
    # vacuity probe: some normal exit must be reachable; satisfiability with quantifiers is
    # expensive, so a small budget per exit and stop at the first witness
    prove.check(ob, axioms, rlimit=prove.RLIMIT // 200)
    if ob.result == 'proved':
      any_exit = 'proved'
      break
    if ob.result == 'unknown':
      any_exit = 'unknown'
    elif any_exit is None:
      any_exit = 'refuted'
  for ob in obls:
    if ob.expect == 'sat-any':
      continue
    prove.check(ob, axioms, rlimit=(prove.RLIMIT // 200 if ob.expect == 'sat' else None))
    e = by_name.setdefault(ob.name, {'name': ob.name, 'kind': ob.kind, 'text': ob.text,
                                     'instances': 0, 'result': 'proved', 'time': 0.0,
                                     'backend': set(), 'model': None, 'line': ob.line})
    e['instances'] += 1
    e['time'] += ob.time
    e['backend'].add(ob.backend)
    if ob.result == 'refuted' and e['result'] != 'refuted':
      e['result'] = 'refuted'
      if ob.model is not None and hasattr(eng, 'pre_state'):
        e['model'] = {k: prove.model_value(ob.model, v) for k, v in eng.pre_state.env.items()
                      if isinstance(v, sv.V)}
    elif ob.result == 'unknown' and e['result'] == 'proved':
      e['result'] = 'unknown'
  if any_exit is not None:
    by_name[u['name'] + '/exit-reachable'] = {
        'name': u['name'] + '/exit-reachable', 'kind': 'vacuity', 'text': 'some normal exit is reachable',
        'instances': 1, 'result': any_exit, 'time': 0.0,
        'backend': {'z3'}, 'model': None, 'line': 0}
  for e in by_name.values():
    e['backend'] = '+'.join(sorted(b for b in e['backend'] if b))
    res['obligations'].append(e)
  res['time'] = time.time() - t0
  return res
