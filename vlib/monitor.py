"""Run-time contract monitors: the contract of a unit, as pre/post Python predicates, installed as
a wrapper on the real function (module attribute replaced in this process only -- /repo is not
edited) while the schema catalogue is compiled and executed.  Every call of the unit made by the
real pipeline is checked.  Bounded back end: never counted as proved.
"""
import contextlib
import copy
import functools
import os
import sys

REPO = os.environ.get('VERIF_REPO', '/repo')


class MonitorViolation(Exception):
  def __init__(self, unit, clause, detail):
    Exception.__init__(self, '%s: %s: %s' % (unit, clause, detail))
    self.unit = unit
    self.clause = clause
    self.detail = detail


class Monitor:
  """unit: 'module:Class.method'; pre(args...) -> snapshot; post(snapshot, result, *args) raises
  AssertionError (message = clause) when the contract is violated."""

  def __init__(self, unit, props, clauses, pre=None, post=None, on_raise=None, snapshot_result=False):
    self.unit = unit
    self.props = props
    self.clauses = clauses      # human-readable contract, for the evidence
    self.pre = pre
    self.post = post
    self.on_raise = on_raise
    self.snapshot_result = snapshot_result    # children get a deep copy of the result (it is mutated later)
    self.calls = 0


COUNTS = {}
STACK = []          # frames of monitored calls in progress
CURRENT = [None]    # frame of the call whose post is being evaluated


def _resolve(unit):
  modname, qual = unit.split(':')
  if REPO not in sys.path:
    sys.path.insert(0, REPO)
  import importlib
  with contextlib.redirect_stdout(open(os.devnull, 'w')):
    mod = importlib.import_module(modname)
  parts = qual.split('.')
  owner = mod
  for p in parts[:-1]:
    owner = getattr(owner, p)
  return owner, parts[-1]


def install(monitors):
  """Installs all monitors; returns an undo function."""
  undo = []
  for m in monitors:
    owner, name = _resolve(m.unit)
    raw = owner.__dict__[name]
    is_cm = isinstance(raw, classmethod)
    is_sm = isinstance(raw, staticmethod)
    orig = raw.__func__ if (is_cm or is_sm) else raw

    def make(m, orig):
      @functools.wraps(orig)
      def wrapper(*args, **kw):
        COUNTS[m.unit] = COUNTS.get(m.unit, 0) + 1
        snap = m.pre(*args, **kw) if m.pre else None
        frame = {'unit': m.unit, 'children': []}
        STACK.append(frame)
        try:
          result = orig(*args, **kw)
          STACK.pop()
          if STACK:
            STACK[-1]['children'].append((m.unit, args, copy.deepcopy(result) if m.snapshot_result else result))
        except MonitorViolation:
          STACK.pop()
          raise
        except Exception as e:
          STACK.pop()
          if m.on_raise:
            try:
              m.on_raise(snap, e, *args, **kw)
            except AssertionError as a:
              raise MonitorViolation(m.unit, str(a), 'raised %s: %s' % (type(e).__name__, str(e)[:200]))
          raise
        if m.post:
          CURRENT[0] = frame
          try:
            m.post(snap, result, *args, **kw)
          except AssertionError as a:
            raise MonitorViolation(m.unit, str(a).split('\n')[0][:300], str(a)[:600])
        return result
      return wrapper
    w = make(m, orig)
    if is_cm:
      w = classmethod(w)
    elif is_sm:
      w = staticmethod(w)
    setattr(owner, name, w)
    undo.append((owner, name, raw))

  def restore():
    for owner, name, raw in reversed(undo):
      setattr(owner, name, raw)
  return restore


def snapshot(x):
  return copy.deepcopy(x)
