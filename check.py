#!/usr/bin/env python3
"""check.py run <PROPERTY> [--tier quick|thorough]   |   check.py replay <file>   |   check.py units

Decides one property: (1) deductive tier — VCs generated from the current /repo source of every
unit under contract for that property, discharged by z3 / cvc5; (2) bounded back end — the same
contract text executed natively on the real function over the unit's enumerator; (3) property
specific bounded contracts (props/<id>.py).  Exit 0 held / 1 violation / 3 checker crash.
"""
import json
import multiprocessing
import os
import sys
import time
import traceback

HERE = os.path.dirname(os.path.abspath(__file__))
if os.environ.get('PYTHONHASHSEED') is None:
  # one fixed hash seed for the checker itself: the order in which hypotheses reach the solvers (and with it which
  # of the borderline obligations they decide) is then the same on every run
  os.environ['PYTHONHASHSEED'] = '0'
  os.execv(sys.executable, [sys.executable] + sys.argv)
sys.path.insert(0, HERE)
os.environ.setdefault('VERIF_REPO', '/repo')

from vlib import units as U   # noqa: E402
from vlib import rt           # noqa: E402
from vlib import evidence     # noqa: E402


def _verify(name):
  us = U.load_sidecars()
  reg = U.registry(us)
  try:
    return U.verify_unit(reg[name], reg)
  except Exception:
    return {'name': name, 'status': 'checker-error', 'error': traceback.format_exc(), 'obligations': [],
            'time': 0.0, 'assumed': [], 'dropped': []}


def _native(args):
  name, tier = args
  us = U.load_sidecars()
  reg = U.registry(us)
  try:
    return rt.run_native(reg[name], tier)
  except Exception:
    return {'unit': name, 'evaluations': 0, 'skipped': 0, 'violation': None, 'samples': [],
            'error': traceback.format_exc()}


def load_known():
  path = os.path.join(HERE, 'known_findings.jsonl')
  out = []
  if os.path.exists(path):
    for line in open(path):
      line = line.strip()
      if line and not line.startswith('#'):
        out.append(json.loads(line))
  return out


def known_match(known, prop, unit, key):
  for k in known:
    if k.get('status') != 'known' or k.get('property') != prop:
      continue
    if k.get('unit') == unit and key in k.get('keys', []):
      return k
  return None


def run(prop, tier):
  t0 = time.time()
  seed = int(os.environ.get('VERIF_SEED', '0'))
  os.environ['VERIF_TIER_CURRENT'] = tier
  us = U.load_sidecars()
  reg = U.registry(us)
  mine = [u for u in us if prop in u.get('props', []) and not u.get('external')]
  ext = [u for u in us if u.get('external')]
  known = load_known()
  ctx = multiprocessing.get_context('fork')
  with ctx.Pool(min(16, max(1, len(mine)))) as pool:
    ded_async = pool.map_async(_verify, [u['name'] for u in mine if u.get('deductive', True)])
    nat_async = pool.map_async(_native, [(u['name'], tier) for u in mine if u.get('native')])
    ded = ded_async.get()
    nat = {r['unit']: r for r in nat_async.get()}
  # property specific bounded contracts
  extra = []
  pmod = None
  ppath = os.path.join(HERE, 'props', prop.lower() + '.py')
  if os.path.exists(ppath):
    import importlib.util
    spec = importlib.util.spec_from_file_location('prop_' + prop.lower(), ppath)
    pmod = importlib.util.module_from_spec(spec)
    sys.modules['prop_' + prop.lower()] = pmod
    spec.loader.exec_module(pmod)
    extra = pmod.run(tier, seed)

  violations = []     # (unit, key, replay dict)
  undecided = []
  lines = []
  n_obl = n_dis = 0
  vc_time = 0.0
  backends = set()
  samples = []
  for r in ded:
    u = reg[r['name']]
    n = nat.get(r['name'])
    if r['status'] == 'checker-error':
      print(r['error'], file=sys.stderr)
      print('CHECKER-ERROR unit=%s' % r['name'])
      sys.exit(3)
    if r['status'] != 'ok':
      undecided.append({'unit': r['name'], 'why': '%s: %s' % (r['status'], r.get('error'))})
      lines.append('UNDECIDED unit=%s not generated: %s' % (r['name'], r.get('error')))
    for o in r['obligations']:
      if o['kind'] == 'vacuity' and o['result'] == 'unknown' and n and n['evaluations'] > 0:
        # satisfiability probe the solver could not settle: the bounded back end ran the real
        # function on inputs satisfying the precondition and reached a normal exit -- a witness
        o['result'], o['backend'] = 'proved', 'native-witness'
      n_obl += 1
      vc_time += o['time']
      if o['backend']:
        backends.update(o['backend'].split('+'))
      if o['result'] == 'proved':
        n_dis += 1
        if len(samples) < 6 and o['kind'] in ('post', 'loop-preserved'):
          samples.append({'obligation': o['name'], 'text': o['text'], 'result': 'proved',
                          'backend': o['backend'], 'instances': o['instances']})
      elif o['result'] == 'refuted':
        rep = {'property': prop, 'unit': r['name'], 'file': u['file'], 'obligation': o['name'],
               'clause': o['text'], 'solver': 'refuted (sat) by ' + o['backend'],
               'model': _short(o.get('model')), 'source': r.get('info')}
        if n and n.get('violation'):
          rep['native'] = n['violation']
        violations.append((r['name'], o['name'], rep))
      else:
        undecided.append({'unit': r['name'], 'obligation': o['name'], 'why': 'solver unknown'})
        lines.append('UNDECIDED obligation=%s (solver unknown)' % o['name'])
  # native violations not already explained by a refuted obligation of the same unit
  for name, n in nat.items():
    if n.get('error'):
      print(n['error'], file=sys.stderr)
      print('CHECKER-ERROR native unit=%s' % name)
      sys.exit(3)
    if n.get('violation') and not any(v[0] == name for v in violations):
      u = reg[name]
      rep = {'property': prop, 'unit': name, 'file': u['file'],
             'obligation': name + '/native-' + n['violation']['clause'],
             'clause': n['violation']['text'], 'solver': 'bounded back end (native execution)',
             'native': n['violation']}
      violations.append((name, rep['obligation'], rep))
  for e in extra:
    for v in e.get('violations', []):
      violations.append((e['name'], v['key'], dict(v['replay'], property=prop, unit=e['name'])))

  # report
  os.makedirs(os.path.join(HERE, 'replays'), exist_ok=True)
  for old in os.listdir(os.path.join(HERE, 'replays')):
    if old.startswith(prop + '_'):
      os.unlink(os.path.join(HERE, 'replays', old))
  n_viol = 0
  known_hits = []
  for unit_name, key, rep in violations:
    k = known_match(known, prop, unit_name, key)
    if k:
      known_hits.append('KNOWN-FINDING: property=%s %s' % (prop, k['what']))
      continue
    n_viol += 1
    fn = os.path.join('replays', '%s_%s.json' % (prop, _slug(key)))
    rep['replay_cmd'] = './check replay ' + fn
    with open(os.path.join(HERE, fn), 'w') as f:
      json.dump(rep, f, indent=1, default=str)
    tail = '' if rep.get('native') or rep.get('input') else ' no-failing-input-found'
    lines.append('VIOLATION property=%s replay=%s obligation=%s%s' % (prop, fn, key, tail))
  for l in sorted(set(known_hits)):
    lines.append(l)

  nat_evals = sum(n['evaluations'] for n in nat.values())
  ev = evidence.build(prop, tier, seed, pmod, ded, nat, extra, reg, n_obl, n_dis, vc_time,
                      sorted(backends), samples, undecided, n_viol, time.time() - t0, ext, mine,
                      known_hits)
  evidence.write(prop, ev)
  for l in lines:
    print(l)
  print('%s tier=%s units=%d obligations=%d discharged=%d native_evaluations=%d extra_checks=%d '
        'violations=%d undecided=%d wall=%.1fs' % (
            prop, tier, len(mine), n_obl, n_dis, nat_evals, len(extra), n_viol, len(undecided),
            time.time() - t0))
  return 1 if n_viol else 0


def _short(m):
  if m is None:
    return None
  return {k: (v if len(repr(v)) < 300 else repr(v)[:300] + '...') for k, v in m.items()}


def _slug(s):
  return ''.join(c if c.isalnum() else '_' for c in s)[:80]


def replay(path):
  rep = json.load(open(path if os.path.isabs(path) else os.path.join(HERE, path)))
  print('property   :', rep.get('property'))
  print('unit       :', rep.get('unit'), 'in', rep.get('file'))
  print('obligation :', rep.get('obligation'))
  print('clause     :', rep.get('clause'))
  print('solver     :', rep.get('solver'))
  us = U.load_sidecars()
  reg = U.registry(us)
  if rep.get('prop_replay'):
    import importlib.util
    ppath = os.path.join(HERE, 'props', rep['property'].lower() + '.py')
    spec = importlib.util.spec_from_file_location('prop_' + rep['property'].lower(), ppath)
    pmod = importlib.util.module_from_spec(spec)
    sys.modules['prop_' + rep['property'].lower()] = pmod
    spec.loader.exec_module(pmod)
    ok = pmod.replay(rep['prop_replay'])
    print('replay     :', 'still fails' if not ok else 'passes now')
    return 0 if ok else 1
  u = reg.get(rep.get('unit'))
  if u is None or not u.get('native'):
    print('replay     : no native enumerator for this unit; solver output above')
    return 1
  n = rt.run_native(u, 'thorough')
  if n.get('violation'):
    print('replay     : real code violates the contract on', n['violation']['case'])
    print('             ', n['violation']['clause'], n['violation']['detail'])
    return 1
  print('replay     : bounded back end finds no failing input on the current tree '
        '(%d evaluations)' % n['evaluations'])
  return 0


def main():
  if len(sys.argv) < 2:
    print(__doc__)
    return 2
  cmd = sys.argv[1]
  if cmd == 'run':
    prop = sys.argv[2]
    tier = os.environ.get('VERIF_TIER', 'quick')
    if '--tier' in sys.argv:
      tier = sys.argv[sys.argv.index('--tier') + 1]
    return run(prop, tier)
  if cmd == 'replay':
    return replay(sys.argv[2])
  if cmd == 'units':
    for u in U.load_sidecars():
      print('%-50s %-10s %s' % (u['name'], ','.join(u.get('props', [])), 'external' if u.get('external') else ''))
    return 0
  print(__doc__)
  return 2


if __name__ == '__main__':
  try:
    sys.exit(main())
  except SystemExit:
    raise
  except Exception:
    traceback.print_exc()
    sys.exit(3)
