import sys
tag, wt = sys.argv[1], sys.argv[2]
AREAS = {
 'a': ["parser_py/parse.py: Traverse, RemoveComments, IsWhole, Strip, SplitRaw / Split, ParseRecordInternals, ParseList",
       "parser_py/parse.py: DisjunctiveNormalForm (PropositionToDNF, ConjunctionOfDnfs, RuleToRules), MultiBodyAggregation, ParseNegation, ParseImplication",
       "parser_py/parse.py: ParseFile (imports, prefixes), RenamePredicate, ParseImport, AnnotationsFromDenotations, ParseRule",
       "compiler/universe.py: class Annotations (ExtractAnnotations, Ground, LimitOf, OrderBy, OrderByClause, LimitClause, With, NoInject, OkInjection, CheckAnnotatedObjects, BuildFlagValues)"],
 'b': ["compiler/universe.py: LogicaProgram (PredicateSql, RunInjections, InlinePredicateValues, UseFlagsAsParameters, CheckDistinctConsistency, GenerateWithClauses, PerformIterationClosure, FormattedPredicateSql)",
       "compiler/universe.py: SubqueryTranslator (TranslateTable, TranslateTableAttachedToFile, TranslateWithedTable, TranslateRule), class Logica",
       "compiler/rule_translate.py: RuleStructure (AsSql, ElliminateInternalVariables, UnificationsToConstraints, SortUnnestings, AllVariables), ExtractRuleStructure, HeadToSelect, NamesAllocator, DisambiguateCombineVariables",
       "compiler/expr_translate.py: QL (ConvertToSql, StrLiteral, Function, Infix, Subscript, Record, ListLiteral, SubIfStruct, ConvertAnalytic), compiler/dialects.py (any dialect class, DecorateCombineRule)"],
 'c': ["compiler/functors.py: Functors (__init__, BuildDirectArgsOf, ArgsOf, UpdateStructure, CallFunctor, CallKey, MakeAll, CollectAnnotations, RecursiveAnalysis, UnfoldRecursions, RemoveRulesProvenToBeNil)",
       "compiler/dialect_libraries/recursion_library.py: GetRecursionFunctor, GetFlatRecursionFunctor, GetFlatIterativeRecursionFunctor, GetRenamingFunctor, DiamondOrder",
       "common/concertina_lib.py: Concertina (__init__, UnderstandIterations, SortActions, RunOneAction, UpdateStateForIterativeAction, ActionIterationWantsToStopBySignal, Run), ExecuteLogicaProgram, RenamePredicate",
       "common/sqlite3_logica.py: ArgMin, ArgMax, DistinctListAgg, ArrayConcatAgg, ArrayConcat, Join, SortList, InList, AssembleRecord, ExtendConnectionWithLogicaFunctions, RunSqlScript; and type_inference/research/reference_algebra.py: Unify, UnifyFriendlyRecords, UnifyListElement, Rank, TypeReference"],
}
base = open('/verif/tools/_prompt_benign.txt').read()
print(base.replace('{WT}', wt).replace('{TAG}', tag).replace('{AREAS}', '\n'.join('  - ' + a for a in AREAS[tag])))
