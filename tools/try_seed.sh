#!/bin/sh
# try_seed.sh <seed_dir> <PROP> [tier]: applies the seeded change to /repo, runs the check, reverts.
SEED="$1"; PROP="$2"; TIER="${3:-quick}"
cd "$(dirname "$0")/.."
git -C /repo apply "$SEED/patch.diff" || { echo "apply failed"; exit 2; }
./check run "$PROP" --tier "$TIER" 2>&1 | grep -E "VIOLATION|KNOWN|UNDECIDED|tier=|Traceback|Error" | cut -c1-260
RC=$?
git -C /repo checkout -- . 
