#!/bin/bash
# recheck_seeds.sh <k> <n>: re-run every stored seeded change with index % n == k in its own scratch worktree
# (VERIF_REPO), quick tier of its property; one line per seed in /tmp/recheck/<name>.txt
k=$1; n=$2; wt=/tmp/rc_wt_$k; mkdir -p /tmp/recheck
git -C /repo worktree add -q --detach $wt HEAD 2>/dev/null
i=0
for d in /verif/seeded/*/; do
  name=$(basename $d); i=$((i+1))
  [ $((i % n)) -eq $k ] || continue
  prop=$(python3 -c "import json;print(json.load(open('$d/meta.json'))['property'])")
  git -C $wt checkout -q -- . ; git -C $wt clean -fdq
  if ! git -C $wt apply $d/patch.diff 2>/dev/null; then echo "$name $prop APPLY-FAILED" > /tmp/recheck/$name.txt; continue; fi
  out=$(cd /verif && VERIF_REPO=$wt ./check run $prop --tier quick 2>&1)
  if echo "$out" | grep -q "^VIOLATION"; then s=DETECTED; else s=MISSED; fi
  echo "$name $prop $s $(echo "$out" | grep -c '^VIOLATION') viol $(echo "$out" | grep -E 'CHECKER|Traceback' | head -1)" > /tmp/recheck/$name.txt
done
git -C $wt checkout -q -- . ; git -C /repo worktree remove --force $wt
