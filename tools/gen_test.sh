#!/bin/bash
# gen_test.sh <PROP> <pattern> <seed names...> : for each kept seed, apply, run PROP quick, report whether a VIOLATION line matching pattern appears
P=$1; PAT=$2; shift 2
for n in "$@"; do
  out=$(/verif/tools/try_seed.sh /verif/seeded/$n $P quick 2>&1)
  if echo "$out" | grep "^VIOLATION" | grep -q "$PAT"; then echo "$n: $PAT YES"; else echo "$n: $PAT no ($(echo "$out" | grep -c '^VIOLATION') other)"; fi
done
git -C /repo status --short | head -3
