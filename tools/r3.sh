#!/bin/bash
# r3.sh <NN> [tier] : try each round-3 seed of property C<NN>; print DETECTED/MISSED + first obligations
p=$1; tier=${2:-quick}
for d in /tmp/w3_c$p/_seed/c${p}_*/; do
  n=$(basename $d)
  out=$(/verif/tools/try_seed.sh $d C$p $tier 2>&1)
  if echo "$out" | grep -q "^VIOLATION"; then s=DETECTED; else s=MISSED; fi
  echo "$n $s :: $(echo "$out" | grep '^VIOLATION' | sed 's/.*obligation=//' | head -3 | tr '\n' ';' | cut -c1-200) $(echo "$out" | grep UNDECIDED | head -2 | cut -c1-160 | tr '\n' ';')"
  grep -q "^$n " /verif/tools/_round3_first.txt 2>/dev/null || echo "$n $s" >> /verif/tools/_round3_first.txt
done
git -C /repo status --short | head -3
