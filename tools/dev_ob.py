"""dev_ob.py <unit> <obligation-substring> [--z3only] [--dump file]: solve matching obligations, print stage info."""
import sys, time; sys.path.insert(0,'/verif')
import z3
from vlib import units, extract, symex, prove
us = units.load_sidecars(); reg = units.registry(us)
u = reg[sys.argv[1]]
node, text, info = (extract.find_slice(u['file'], u['qualname'], u['slice'][0], u['slice'][1], u['params']) if u.get('slice') else extract.find(u['file'], u['qualname']))
uu = dict(u); uu['node']=node
eng = symex.Engine(uu, reg)
obls = eng.run()
for ob in obls:
  if sys.argv[2] not in ob.name or ob.goal is None: continue
  s = z3.Solver()
  for a in prove.list_axioms(): s.add(a)
  for p in ob.pc: s.add(p)
  s.add(z3.Not(ob.goal))
  if '--dump' in sys.argv:
    open(sys.argv[sys.argv.index('--dump')+1],'w').write('(set-logic ALL)\n'+s.to_smt2())
  s.set('timeout', int(sys.argv[sys.argv.index('--timeout')+1]) if '--timeout' in sys.argv else 60000)
  t=time.time(); r = s.check(); print(ob.name, 'z3', r, '%.1fs' % (time.time()-t), s.reason_unknown() if r==z3.unknown else '')
  if '--pc' in sys.argv:
    for p in ob.pc: print('  PC', p)
    print('  GOAL', ob.goal)
