import json, sys, glob
pid = sys.argv[1]; wt = sys.argv[2]
for l in open('/verif/properties.jsonl'):
    p = json.loads(l)
    if p['id'] == pid: break
done = []
for f in sorted(glob.glob('/verif/seeded/*/meta.json')):
    m = json.load(open(f))
    if m['property'] == pid:
        s = (m.get('summary') or '').replace('\n', ' ')
        done.append(s[:260] + ('...' if len(s) > 260 else ''))
anchors = '\n'.join('  - %s: %s' % (m['name'], m['where']) for m in p['anchors']['mechanism'])
prev = '\n'.join('  * ' + d for d in done)
base = open('/verif/tools/_prompt_base.txt').read()
print(base.replace('{WT}', wt).replace('{PID}', pid).replace('{pid}', pid.lower()).replace('{TITLE}', p['title']).replace('{STATEMENT}', p['statement']).replace('{QUANT}', p['quantifier']['text']).replace('{ANCHORS}', anchors).replace('{OBSERVE}', '; '.join(p['anchors']['observe_at'])).replace('{PREV}', prev))
