#!/usr/bin/env python3
"""confirm_seed.py <seed_dir> : confirms a seeded change in a scratch worktree of /repo.

Checks: patch applies; demo exits 0 without / non-zero with the change; the pinned test suite's
pass set (BASELINE.json stable_pass) is unchanged with the change.  Removes the worktree."""
import json, os, subprocess, sys, tempfile, re, shutil

def sh(cmd, cwd=None, timeout=1800):
  return subprocess.run(cmd, shell=True, cwd=cwd, capture_output=True, text=True, timeout=timeout)

def passed_set(wt):
  r = sh('/venv/bin/python -m pytest -q -p no:cacheprovider --timeout=900 --continue-on-collection-errors -rA 2>&1', cwd=wt)
  return set(re.findall(r'^PASSED (\S+)', r.stdout, re.M))

def main():
  seed = os.path.abspath(sys.argv[1])
  wt = tempfile.mkdtemp(prefix='seedwt_', dir='/tmp')
  os.rmdir(wt)
  assert sh('git -C /repo worktree add -q --detach %s HEAD' % wt).returncode == 0
  res = {}
  try:
    d0 = sh('/venv/bin/python %s/demo.py %s' % (seed, wt), cwd=wt)
    res['demo_clean_exit'] = d0.returncode
    base = passed_set(wt)
    a = sh('git apply %s/patch.diff' % seed, cwd=wt)
    res['apply'] = a.returncode
    d1 = sh('/venv/bin/python %s/demo.py %s' % (seed, wt), cwd=wt)
    res['demo_patched_exit'] = d1.returncode
    res['demo_patched_tail'] = (d1.stdout + d1.stderr)[-400:]
    after = passed_set(wt)
    res['tests_pass_clean'] = len(base)
    res['tests_pass_patched'] = len(after)
    res['tests_same'] = base == after
    res['confirmed'] = (d0.returncode == 0 and a.returncode == 0 and d1.returncode != 0 and base == after and len(base) >= 40)
  finally:
    sh('git -C /repo worktree remove --force %s' % wt)
    shutil.rmtree(wt, ignore_errors=True)
  print(json.dumps(res, indent=1))
  return 0 if res.get('confirmed') else 1

if __name__ == '__main__':
  sys.exit(main())
