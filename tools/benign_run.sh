#!/bin/bash
# benign_run.sh <tag>: for every behaviour-preserving refactoring in /tmp/wb_<tag>/_seed/benign_*: apply it in that worktree,
# run every property's quick check against it (VERIF_REPO), revert.  One summary line per refactoring and property with an alarm.
t=$1; src=/tmp/wb_$t; wt=/tmp/wbr_$t; mkdir -p /tmp/benign_logs; [ -d $wt ] || git -C /repo worktree add -q --detach $wt HEAD
for d in $src/_seed/benign_*/; do
  name=$(basename $d)
  git -C $wt checkout -q -- . ; rm -f $wt/logica.db
  git -C $wt apply $d/patch.diff || { echo "$name APPLY-FAILED"; continue; }
  for p in C01 C02 C03 C04 C07 C08 C09 C10 C11 C12 C13 C14 C15 C16 C17 C18 C19 C20; do
    (cd /verif && VERIF_REPO=$wt ./check run $p --tier quick > /tmp/benign_logs/${name}_$p.log 2>&1); rc=$?
    v=$(grep -c '^VIOLATION' /tmp/benign_logs/${name}_$p.log); u=$(grep -c '^UNDECIDED' /tmp/benign_logs/${name}_$p.log)
    [ "$rc" != "0" -o "$v" != "0" ] && echo "$name $p ALARM exit=$rc violations=$v"
    [ "$u" != "0" ] && echo "$name $p undecided=$u"
  done
  echo "$name done"
  git -C $wt checkout -q -- . ; rm -f $wt/logica.db
done
