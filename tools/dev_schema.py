"""dev_schema.py <name>... : run the named catalogue schemas (quick tier) against VERIF_REPO."""
import sys; sys.path.insert(0, '/verif')
from vlib import lgen, run
for n in sys.argv[1:]:
  for s in lgen.ALL:
    if s['name'] == n:
      r = run.run_schema(s, 'quick')
      print(n, 'evaluations', r['evaluations'], 'nontrivial', r['nontrivial'], 'VIOLATION' if r['violation'] else 'ok')
      if r['violation']: print('   ', {k: (str(v)[:700]) for k, v in r['violation'].items()})
