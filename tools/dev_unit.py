import sys; sys.path.insert(0,'/verif')
from vlib import units, extract, symex, prove
us = units.load_sidecars(); reg = units.registry(us)
u = reg[sys.argv[1]]
node, text, info = (extract.find_slice(u['file'], u['qualname'], u['slice'][0], u['slice'][1], u['params']) if u.get('slice') else extract.find(u['file'], u['qualname']))
uu = dict(u); uu['node']=node
eng = symex.Engine(uu, reg)
obls = eng.run()
axioms=[]
for sn in sorted(uu.get('_orders', [])): axioms.extend(prove.order_axioms(sn))
for ob in obls:
  prove.check(ob, axioms)
  if '-q' in sys.argv and ob.result=='proved': continue
  print('%-9s %6.2fs %s  pc=%d' % (ob.result, ob.time, ob.name, len(ob.pc)))
  if '-v' in sys.argv and ob.result!='proved':
    for p in ob.pc: print('    PC', p)
    print('    GOAL', ob.goal)
