#!/bin/bash
# r4.sh <seed_name> [PROP] [tier]: apply the round-4 seed in its scratch worktree, run the check there (VERIF_REPO), revert
name=$1; n=${name:1:2}; prop=${2:-C$n}; tier=${3:-quick}; wt=/tmp/w${ROUND:-5}_c$n
git -C $wt checkout -q -- . ; git -C $wt apply $wt/_seed/$name/patch.diff || exit 2
(cd /verif && VERIF_REPO=$wt ./check run $prop --tier $tier 2>&1 | grep -E "VIOLATION|KNOWN|UNDECIDED|tier=|Traceback|Error|CHECKER" | cut -c1-230)
git -C $wt checkout -q -- . ; rm -f $wt/logica.db
