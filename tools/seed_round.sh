#!/bin/bash
# seed_round.sh <round> <NN> [outdir]: for each seed in /tmp/w<round>_cNN/_seed/cNN_*: apply it in that scratch worktree,
# run the quick check there (VERIF_REPO), revert.  Logs in <outdir>/<seed>.log  (default /tmp/r<round>_logs).
r=$1; n=$2; out=${3:-/tmp/r${r}_logs}; wt=/tmp/w${r}_c$n; mkdir -p $out
for d in $wt/_seed/c${n}_*/; do
  name=$(basename $d)
  git -C $wt checkout -q -- . ; rm -f $wt/logica.db
  git -C $wt apply $d/patch.diff || { echo "$name APPLY-FAILED" > $out/$name.log; continue; }
  (cd /verif && VERIF_REPO=$wt ./check run C$n --tier quick > $out/$name.log 2>&1)
  git -C $wt checkout -q -- . ; rm -f $wt/logica.db
done
