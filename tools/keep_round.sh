#!/bin/bash
# keep_round.sh <round>: confirm + run + store the seeds of that round that are not stored yet (run from a snapshot via `vp run`)
r=$1
cd "$(dirname "$0")/.."
[ -x .venv/bin/python ] || sh setup.sh >/dev/null 2>&1
for n in 01 02 03 04 07 08 09 10 11 12 13 14 15 16 17 18 19 20; do
  for d in /tmp/w${r}_c$n/_seed/c${n}_*/; do
    [ -f $d/patch.diff ] || continue
    name=$(basename $d)
    [ -f /verif/seeded/$name/meta.json ] && continue
    .venv/bin/python tools/keep_seed.py $d C$n quick 2>&1 | grep -v WARNING | head -3
  done
done
git -C /repo status --short
echo ALLDONE
