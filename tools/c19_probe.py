import sys; sys.path.insert(0,'/verif'); sys.path.insert(0,'/verif/props')
import c19
C = [
 ('in_list_rhs', 'P(x) :- Q(x, z), x in [w];', 'w'),
 ('in_list_lhs', 'P(x) :- Q(x, z), w in [x, z];', 'w'),
 ('list_assigned', 'P(x) :- Q(x, z), l == [w], x in l;', 'w'),
 ('head_list', 'P(x, [w]) :- Q(x, z);', 'w'),
 ('head_list_second', 'P(x, [z, w]) :- Q(x, z);', 'w'),
 ('head_record', 'P(x, {a: w}) :- Q(x, z);', 'w'),
 ('record_field_cmp', 'P(x) :- Q(x, z), {a: w}.a > x;', 'w'),
 ('call_arg', 'P(x, Greatest(x, w)) :- Q(x, z);', 'w'),
 ('call_arg_body', 'P(x) :- Q(x, z), Greatest(z, w) > 1;', 'w'),
 ('if_branch', 'P(x, if x > 0 then w else 1) :- Q(x, z);', 'w'),
 ('if_cond', 'P(x, if w > 0 then 2 else 1) :- Q(x, z);', 'w'),
 ('combine_body', 'P(x, s) :- Q(x, z), s == Sum{w :- Q(x, u)};', 'w'),
 ('agg_value', 'P(x) += w :- Q(x, z);', 'w'),
 ('agg_named', 'P(x, m? Max= w) distinct :- Q(x, z);', 'w'),
 ('nested_list_list', 'P(x) :- Q(x, z), x in [z, [w][0]];', 'w'),
 ('list_in_call', 'P(x, Size([w, x])) :- Q(x, z);', 'w'),
 ('negated_pred_arg', 'P(x) :- Q(x, z), ~Q(x, w + 1);', 'w'),
 ('pred_arg_expr', 'P(x) :- Q(x, z), Q(w + 1, z);', 'w'),
 ('subscript', 'P(x) :- Q(x, z), [1,2,3][w] == x;', 'w'),
 ('implication', 'P(x, y) :- Q(x, z), y == (if z > 0 then [w] else [x]);', 'w'),
 ('string_concat', 'P("a" ++ w) :- Q(x, z);', 'w'),
]
for name, body, m in C:
  kind, msg, ctx = c19.outcome(c19.E + body, 'P')
  ok = kind in c19.DIAG and (m in msg or m in ctx)
  print('%-20s %-28s %s' % (name, kind, 'OK' if ok else ('!! ' + msg[:150].replace('\n', ' | '))))
