import sys; sys.path.insert(0,'/verif')
from vlib import units, extract, symex, prove
import z3
us = units.load_sidecars(); reg = units.registry(us)
u = reg[sys.argv[1]]
node, text, info = extract.find(u['file'], u['qualname'])
uu = dict(u); uu['node']=node
eng = symex.Engine(uu, reg); obls = eng.run()
k=0
for ob in obls:
  if ob.name.endswith(sys.argv[2]):
    print('=====', ob.name)
    for a in prove.list_axioms(): print('AX', a)
    for p in ob.pc: print('PC', z3.simplify(p))
    print('GOAL', ob.goal)
    k+=1
