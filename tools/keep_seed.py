#!/usr/bin/env python3
"""keep_seed.py <seed_dir> <PROP> : confirm (tools/confirm_seed.py), run the check with the change applied,
store under /verif/seeded/<name>/ with meta.json recording what was run and what the check said."""
import json, os, shutil, subprocess, sys
seed = os.path.abspath(sys.argv[1]); prop = sys.argv[2]
tier = sys.argv[3] if len(sys.argv) > 3 else 'quick'
name = os.path.basename(seed.rstrip('/'))
HERE = os.path.dirname(os.path.dirname(os.path.abspath(__file__)))
conf = subprocess.run([sys.executable, os.path.join(HERE, 'tools', 'confirm_seed.py'), seed], capture_output=True, text=True)
c = json.loads(conf.stdout)
out = subprocess.run([os.path.join(HERE, 'tools', 'try_seed.sh'), seed, prop, tier], capture_output=True, text=True).stdout
dst = os.path.join(HERE, 'seeded', name)
os.makedirs(dst, exist_ok=True)
for f in ('patch.diff', 'demo.py'):
  shutil.copy(os.path.join(seed, f), dst)
meta = json.load(open(os.path.join(seed, 'meta.json')))
meta['property'] = prop
meta['confirmation'] = {k: c.get(k) for k in ('demo_clean_exit', 'demo_patched_exit', 'tests_pass_clean', 'tests_pass_patched', 'tests_same', 'confirmed')}
meta['ran'] = ['tools/confirm_seed.py %s (scratch worktree: demo without/with the change, pinned suite pass set)' % name,
               'tools/try_seed.sh %s %s %s (git apply in /repo, ./check run, git checkout)' % (name, prop, tier)]
meta['check_output'] = [l for l in out.split('\n') if l.strip()]
meta['detected'] = 'VIOLATION' in out
json.dump(meta, open(os.path.join(dst, 'meta.json'), 'w'), indent=1)
print(name, 'confirmed=%s detected=%s' % (c.get('confirmed'), meta['detected']))
for l in meta['check_output']: print('   ', l[:200])
