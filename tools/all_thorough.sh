#!/bin/bash
# all_thorough.sh: every check's thorough command once, with exit codes and wall time (run via `vp run`)
cd "$(dirname "$0")/.."
for p in C01 C02 C03 C04 C07 C08 C09 C10 C11 C12 C13 C14 C15 C16 C17 C18 C19 C20; do
  s=$(date +%s); ./check run $p --tier thorough > /tmp/th_$p.log 2>&1; rc=$?
  echo "$p exit=$rc $(( $(date +%s)-s ))s $(grep -c '^VIOLATION' /tmp/th_$p.log) viol :: $(tail -1 /tmp/th_$p.log | cut -c1-220)"
  grep -E '^VIOLATION|^UNDECIDED|CHECKER' /tmp/th_$p.log | head -5
done
