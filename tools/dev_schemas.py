import sys, time; sys.path.insert(0,'/verif')
from vlib import lgen, run
import multiprocessing
SCH=[]
def f(i):
  return run.run_schema(SCH[i], sys.argv[1] if len(sys.argv)>1 else 'quick')
if __name__=='__main__':
  t=time.time()
  sch = lgen.ALL
  if len(sys.argv)>2: sch=[s for s in sch if s['name'] in sys.argv[2:]]
  SCH[:] = sch
  with multiprocessing.get_context('fork').Pool(16) as p:
    for r in p.map(f, range(len(sch))):
      print('%-28s ev=%-6d nt=%-6d ex=%s %s' % (r['schema'], r['evaluations'], r['nontrivial'], r['exhaustive'], 'VIOL '+str(r['violation']) if r['violation'] else 'ok'))
  print(time.time()-t)
